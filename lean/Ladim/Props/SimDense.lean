import Ladim.Props.Simulation
import Ladim.Props.WholeOutput
/-
C06 / C07 / C14 for the dense layout of a whole simulation: nothing is ever removed from the
state, array position = pid, and every record of the output stores for each variable, at position
`p`, the value of the particle with pid `p` if it is alive at that moment and the fill value if
it is dead; positions beyond the row (particles not yet released) read back as fill.
-/

namespace Ladim.SimDense
open Ladim

/-- the rows of the dense variables over all files, in order -/
def allRows (fs : List VFile) : List (List (String × List (Option Val))) := fs.flatMap (·.dense)

/-- the row a snapshot is stored as: every column masked by `alive` -/
def rowOf (s : Snapshot) : List (String × List (Option Val)) :=
  s.cols.map (fun (n, c) => (n, (c.zip s.alive).map (fun (v, a) => if a then some v else none)))

/-! ### one `write` in the dense layout -/

theorem files_time (o : Out) :
    o.files.flatMap (·.time) = o.done.flatMap (·.time) ++ o.cur.time := by
  simp [Out.files, List.flatMap_append]

theorem files_rows (o : Out) : allRows o.files = allRows o.done ++ o.cur.dense := by
  simp [allRows, Out.files, List.flatMap_append]

/-- a successful `write` in the dense layout appends exactly the snapshot's time and its masked
    row to the files, whether or not a file is finished and a new one started -/
theorem write_dense (o : Out) (s : Snapshot) (o' : Out) (hl : o.layout = .dense)
    (hw : o.write s = .ok o') :
    o'.layout = .dense ∧
    o'.files.flatMap (·.time) = o.files.flatMap (·.time) ++ [s.time] ∧
    allRows o'.files = allRows o.files ++ [rowOf s] := by
  obtain ⟨-, hl', hc⟩ := C06.write_cases o s o' hw
  rw [hl] at hc
  have ht : (C06.addRec .dense o.cur s).time = o.cur.time ++ [s.time] := rfl
  have hd : (C06.addRec .dense o.cur s).dense = o.cur.dense ++ [rowOf s] := rfl
  have htf : (C06.finFile (C06.addRec .dense o.cur s) s).time = o.cur.time ++ [s.time] := rfl
  have hdf : (C06.finFile (C06.addRec .dense o.cur s) s).dense = o.cur.dense ++ [rowOf s] := rfl
  refine ⟨hl'.trans hl, ?_⟩
  rw [files_time, files_time, files_rows, files_rows]
  rcases hc with ⟨-, h1, h2⟩ | ⟨-, h1, h2⟩ | ⟨-, ⟨nm, h1⟩, h2⟩
  · rw [h1, h2, ht, hd]
    simp [List.append_assoc]
  · rw [h1, h2, htf, hdf]
    simp [List.append_assoc]
  · rw [h1, h2]
    simp [allRows, List.flatMap_append, htf, hdf, emptyFile]

theorem writes_dense : ∀ (snaps : List Snapshot) (o o' : Out), o.layout = .dense →
    C06.writes o snaps = .ok o' →
    o'.files.flatMap (·.time) = o.files.flatMap (·.time) ++ snaps.map (·.time) ∧
    allRows o'.files = allRows o.files ++ snaps.map rowOf := by
  intro snaps
  induction snaps with
  | nil =>
    intro o o' _ hw
    obtain rfl := Except.ok.inj hw
    simp
  | cons s rest ih =>
    intro o o' hl hw
    unfold C06.writes at hw
    cases hws : o.write s with
    | error e => rw [hws] at hw; cases hw
    | ok o1 =>
      rw [hws] at hw
      obtain ⟨hl1, ht1, hr1⟩ := write_dense o s o1 hl hws
      obtain ⟨ht, hr⟩ := ih o1 o' hl1 hw
      rw [ht, hr, ht1, hr1]
      simp

/-- **dense_rows_faithful**: the dense files hold, over all files in order, one row per snapshot
    written: its time and its columns masked by `alive` -/
theorem dense_rows_faithful (o : Out) (snaps : List Snapshot) (o' : Out) (hl : o.layout = .dense)
    (hnew : o.cur.time = [] ∧ o.cur.dense = [] ∧ o.done = [])
    (hw : C06.writes o snaps = .ok o') :
    o'.files.flatMap (·.time) = snaps.map (·.time) ∧ allRows o'.files = snaps.map rowOf := by
  obtain ⟨h1, h2, h3⟩ := hnew
  obtain ⟨ht, hr⟩ := writes_dense snaps o o' hl hw
  rw [ht, hr, files_time, files_rows, h1, h2, h3]
  simp [allRows]

/-- the state a dense run shows to the output at a due step: all particles released so far, at
    array position = pid, the living ones being the specification's record -/
theorem dense_record (s : Sim) (rnd : Rat → Rat) (res : SimResult) (tk : TK) (g : GridM) (rel : Rel)
    (hp : Simulation.Parts s rnd res tk g rel) (hw : s.warm = none) (hsp : s.sparse = false)
    (n : Nat) (hn : n < res.nsteps) (parts : List RP) (hr : ((n : Int), parts) ∈ res.final.records) :
    parts.filter (·.alive) = RunEnv.specRecord (Simulation.envOf s g rel res.nsteps rnd) n ∧
    parts.map (·.pid) = List.range parts.length := by
  have hf := hp.hfinal
  rw [hw] at hf
  rw [hf] at hr
  exact C14.run_refines_spec_dense (Simulation.envOf s g rel res.nsteps rnd)
    (Whole.env_sane (s.setup g (res.nsteps + 1) (rel.run 0 (res.nsteps + 1)) rnd)) hsp res.nsteps n hn
    parts hr

/-- `close` changes neither the times nor the dense rows of the files -/
theorem close_time (o : Out) : o.close.files.flatMap (·.time) = o.files.flatMap (·.time) := by
  rw [C07.close_files, Out.files, List.flatMap_append, List.flatMap_append]
  rfl

theorem close_rows (o : Out) : allRows o.close.files = allRows o.files := by
  rw [C07.close_files, Out.files, allRows, allRows, List.flatMap_append, List.flatMap_append]
  rfl

/-- **files_faithful_dense** (cold start, dense layout): the run ends normally, every file is
    closed, and the rows of its files are, in order, the snapshots of the output steps
    `0, p, 2p, … < nsteps` masked by `alive` -/
theorem files_faithful_dense (s : Sim) (rnd : Rat → Rat) (res : SimResult) (tk : TK) (g : GridM) (rel : Rel)
    (hp : Simulation.Parts s rnd res tk g rel) (hw : s.warm = none) (hsp : s.sparse = false)
    (hper : 1 ≤ s.period) (hnum : 0 ≤ s.numrec)
    (hbig : s.numrec = 0 → Out.predictRecords res.nsteps s.period false ≤ 999999) :
    ∃ fs, res.files = .ok fs ∧ (∀ f ∈ fs, f.closed = true) ∧
      fs.flatMap (·.time) = (C07.dueSteps res.nsteps s.period).map (fun st => (s.outSpec tk (rel.run 0 (res.nsteps + 1))).time st) ∧
      allRows fs = (C07.dueSteps res.nsteps s.period).map (fun st =>
        rowOf ((s.outSpec tk (rel.run 0 (res.nsteps + 1))).snapshotOf st ((res.final.records.lookup st).getD []))) := by
  set osp := s.outSpec tk (rel.run 0 (res.nsteps + 1)) with hosp
  set snap : Int → Snapshot :=
    fun st => osp.snapshotOf st ((res.final.records.lookup st).getD []) with hsnap
  have hfl := hp.hfiles
  rw [hw, hsp] at hfl
  have hrun : res.files = Out.coldRun .dense res.nsteps s.period s.numrec s.stem s.suffix snap := hfl
  have hN : (0 : Int) ≤ (res.nsteps : Int) := Int.natCast_nonneg _
  obtain ⟨fs, hfs, -, -⟩ :=
    C07.schedule_complete .dense res.nsteps s.period s.numrec hN hper hnum hbig s.stem s.suffix snap
  refine ⟨fs, hrun.trans hfs,
    fun f hf => (C07.all_closed .dense res.nsteps s.period s.numrec hN hper hnum s.stem s.suffix snap fs hfs f hf).1, ?_⟩
  unfold Out.coldRun at hfs
  cases hrs : Out.runSteps (Out.init .dense s.period (Out.predictRecords res.nsteps s.period false) s.numrec s.stem s.suffix)
      snap (Out.stepRange 0 (res.nsteps : Int).toNat) with
  | error e => rw [hrs] at hfs; cases hfs
  | ok out =>
    rw [hrs] at hfs
    obtain rfl := Except.ok.inj hfs
    have hw1 := WholeOutput.runSteps_writes snap s.period _ _ out rfl hrs
    have hw' : C06.writes (Out.init .dense s.period (Out.predictRecords res.nsteps s.period false) s.numrec s.stem s.suffix)
        ((C07.dueSteps res.nsteps s.period).map snap) = .ok out := hw1
    obtain ⟨ht, hr⟩ := dense_rows_faithful _ _ out rfl ⟨rfl, rfl, rfl⟩ hw'
    rw [close_time, close_rows, ht, hr, List.map_map, List.map_map]
    exact ⟨rfl, rfl⟩

/-! non-vacuity: two records, the second with a dead particle: the fill value at its position -/
example :
    let o := Out.init .dense 1 2 0 "out" ".nc"
    let s1 : Snapshot := { time := 0, pid := [0, 1], alive := [true, true], cols := [("X", [.num 1, .num 3])], npid := 2, pvars := [] }
    let s2 : Snapshot := { time := 60, pid := [0, 1], alive := [true, false], cols := [("X", [.num 2, .num 3])], npid := 2, pvars := [] }
    (match C06.writes o [s1, s2] with
     | .ok o' => allRows o'.files
     | .error _ => []) = [[("X", [some (.num 1), some (.num 3)])], [("X", [some (.num 2), none])]] := by
  decide +kernel

/-! the same with one record per file (two files): each file holds its own row -/
example :
    let o := Out.init .dense 1 2 1 "out" ".nc"
    let s1 : Snapshot := { time := 0, pid := [0, 1], alive := [true, true], cols := [("X", [.num 1, .num 3])], npid := 2, pvars := [] }
    let s2 : Snapshot := { time := 60, pid := [0, 1], alive := [true, false], cols := [("X", [.num 2, .num 3])], npid := 2, pvars := [] }
    (match C06.writes o [s1, s2] with
     | .ok o' => o'.files.map (·.dense)
     | .error _ => []) = [[[("X", [some (.num 1), some (.num 3)])]], [[("X", [some (.num 2), none])]]] := by
  decide +kernel

end Ladim.SimDense
