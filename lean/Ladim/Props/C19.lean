import Ladim.Model.Run
import Mathlib.Tactic.Linarith
import Mathlib.Data.List.Basic
/-
C19 — the step protocol.  Property theorems about `Ladim.Model.Run` (`Model.update`,
`Model.__init__` warm catch-up, `main`'s loop), for every environment (any forcing, tracker,
IBM, release schedule, output period) and every run length.
-/

namespace Ladim.C19
open Ladim RunEnv

/-- what one `Model.update` at step `n` logs -/
def stepLog (env : RunEnv) (n : Int) : List (Int × Call) :=
  [(n, Call.time), (n, Call.release), (n, Call.forcing)] ++
    (if decide (0 ≤ n) && env.due n then [(n, Call.output)] else []) ++ [(n, Call.tracker), (n, Call.ibm)]


/-! ### helpers -/

/-- the arrays after the (sparse) compaction and the release of step `n` -/
def beforeOf (env : RunEnv) (n : Int) (s : RState) : List RP :=
  (if env.sparse then s.parts.filter (·.alive) else s.parts) ++ assignPids s.npid (env.release n)

/-- what `Output.write` would be given at step `n` (`parts3` of `stepBody`) -/
def rec3Of (env : RunEnv) (n : Int) (s : RState) : List RP :=
  if (decide (0 ≤ n) && env.due n && env.sparse) then
    ((beforeOf env n s).map (env.force n)).filter (·.alive)
  else (beforeOf env n s).map (env.force n)

theorem update_log (env : RunEnv) (n : Int) (s : RState) :
    (env.update n s).log = s.log ++ stepLog env n := by
  simp [update, stepBody, stepLog]

theorem update_records (env : RunEnv) (n : Int) (s : RState) :
    (env.update n s).records =
      if (decide (0 ≤ n) && env.due n) then s.records ++ [(n, rec3Of env n s)] else s.records := by
  simp [update, stepBody, rec3Of, beforeOf]

theorem update_parts (env : RunEnv) (n : Int) (s : RState) :
    (env.update n s).parts = (rec3Of env n s).map (fun p => env.ibm n (env.move n p)) := by
  simp [update, stepBody, rec3Of, beforeOf]

theorem assignPids_length (npid : Nat) (rows : List RP) : (assignPids npid rows).length = rows.length := by
  simp [assignPids]

theorem update_npid (env : RunEnv) (n : Int) (s : RState) :
    (env.update n s).npid = s.npid + (env.release n).length := by
  simp [update, stepBody, assignPids_length]

theorem updates_snoc (env : RunEnv) (first : Int) (k : Nat) (s : RState) :
    env.updates first (k + 1) s = env.update (first + k) (env.updates first k s) := by
  induction k generalizing first s with
  | zero => simp [updates]
  | succ k ih =>
    rw [updates, ih]
    simp only [updates]
    congr 1
    omega

theorem updates_log (env : RunEnv) (first : Int) (k : Nat) (s : RState) :
    (env.updates first k s).log =
      s.log ++ (List.range k).flatMap (fun (i : Nat) => stepLog env (first + (i : Int))) := by
  induction k with
  | zero => simp [updates]
  | succ k ih =>
    rw [updates_snoc, update_log, ih, List.range_succ, List.flatMap_append]
    simp

theorem mem_assignPids {npid : Nat} {rows : List RP} {p : RP} (h : p ∈ assignPids npid rows) :
    npid ≤ p.pid := by
  simp only [assignPids, List.mem_map] at h
  obtain ⟨⟨q, i⟩, _, rfl⟩ := h
  simp

/-- **call_log** (cold start): in every step exactly time, release, forcing, output (iff due),
    tracker, IBM — once each, in that order; steps `0 … N−1` in order. -/
theorem call_log (env : RunEnv) (N : Nat) :
    (env.coldRun N).log = (List.range N).flatMap (fun (k : Nat) => stepLog env (k : Int)) := by
  rw [coldRun, updates_log]
  simp [RunEnv.empty]

/-- **call_log** (warm start): the constructor performs release, forcing, tracker, IBM of
    step 0 (no clock update, no output), then the loop runs steps `1 … N−1`. -/
theorem call_log_warm (env : RunEnv) (N : Nat) (parts : List RP) (npid : Nat) :
    (env.warmRun N parts npid).log =
      [(0, Call.release), (0, Call.forcing), (0, Call.tracker), (0, Call.ibm)] ++
      (List.range (N - 1)).flatMap (fun (k : Nat) => stepLog env ((k : Int) + 1)) := by
  rw [warmRun, updates_log]
  simp [stepBody, add_comm]

/-- the steps at which a record is written: exactly the due steps `< N` -/
theorem record_steps (env : RunEnv) (N : Nat) :
    (env.coldRun N).records.map (·.1) =
      ((List.range N).map (fun (k : Nat) => (k : Int))).filter (fun n => env.due n) := by
  induction N with
  | zero => simp [coldRun, updates, RunEnv.empty]
  | succ N ih =>
    rw [coldRun, updates_snoc, update_records]
    rw [coldRun] at ih
    rw [List.range_succ, List.map_append, List.filter_append]
    cases hd : env.due (N : Int) <;> simp [hd, ih]

/-- the state the loop holds when step `n` begins -/
def stateAt (env : RunEnv) (n : Nat) : RState := env.updates 0 n RunEnv.empty


theorem stateAt_succ (env : RunEnv) (n : Nat) :
    stateAt env (n + 1) = env.update (n : Int) (stateAt env n) := by
  simp [stateAt, updates_snoc]

theorem coldRun_eq (env : RunEnv) (N : Nat) : env.coldRun N = stateAt env N := rfl

/-- every record of a cold run was written by the update of its own step, at a due step -/
theorem mem_records (env : RunEnv) (N : Nat) (k : Int) (parts : List RP)
    (h : (k, parts) ∈ (stateAt env N).records) :
    ∃ n : Nat, n < N ∧ k = (n : Int) ∧ env.due n = true ∧ parts = rec3Of env n (stateAt env n) := by
  induction N with
  | zero => simp [stateAt, updates, RunEnv.empty] at h
  | succ N ih =>
    rw [stateAt_succ, update_records] at h
    split at h
    · rename_i hd
      rw [List.mem_append] at h
      rcases h with h | h
      · obtain ⟨n, hn, r⟩ := ih h
        exact ⟨n, by omega, r⟩
      · simp only [List.mem_singleton, Prod.mk.injEq] at h
        simp only [Bool.and_eq_true, decide_eq_true_eq] at hd
        exact ⟨N, by omega, h.1, hd.2, h.2⟩
    · obtain ⟨n, hn, r⟩ := ih h
      exact ⟨n, by omega, r⟩

theorem rec3Of_due (env : RunEnv) (n : Nat) (s : RState) (hd : env.due n = true) :
    rec3Of env n s =
      (if env.sparse then ((beforeOf env n s).map (env.force n)).filter (·.alive)
       else (beforeOf env n s).map (env.force n)) := by
  simp [rec3Of, hd]

theorem mem_rec3Of {env : RunEnv} {n : Int} {s : RState} {p : RP} (h : p ∈ rec3Of env n s) :
    ∃ b ∈ beforeOf env n s, p = env.force n b := by
  unfold rec3Of at h
  split at h
  · rw [List.mem_filter, List.mem_map] at h
    obtain ⟨⟨b, hb, rfl⟩, _⟩ := h
    exact ⟨b, hb, rfl⟩
  · rw [List.mem_map] at h
    obtain ⟨b, hb, rfl⟩ := h
    exact ⟨b, hb, rfl⟩

theorem mem_beforeOf {env : RunEnv} {n : Int} {s : RState} {b : RP} (h : b ∈ beforeOf env n s) :
    b ∈ s.parts ∨ s.npid ≤ b.pid := by
  unfold beforeOf at h
  rw [List.mem_append] at h
  rcases h with h | h
  · left
    split at h
    · exact (List.mem_filter.mp h).1
    · exact h
  · exact Or.inr (mem_assignPids h)

/-- **record_state_is_post_forcing**: the record of step `n` is written from the state right
    after release and forcing of step `n`: every particle in it is `force n` of a particle that
    was in the arrays when the step began or was released at step `n` — so the positions and the
    forcing-derived variables of a record are both valid at its time, and new particles are in. -/
theorem record_state_is_post_forcing (env : RunEnv) (N n : Nat) (hn : n < N) (parts : List RP)
    (hr : ((n : Int), parts) ∈ (env.coldRun N).records) :
    let s := stateAt env n
    let before := (if env.sparse then s.parts.filter (·.alive) else s.parts) ++ assignPids s.npid (env.release n)
    parts = (if env.sparse then (before.map (env.force n)).filter (·.alive) else before.map (env.force n)) := by
  intro s before
  obtain ⟨n', _, hk, hd, hp⟩ := mem_records env N _ _ hr
  have hnn : n' = n := by omega
  subst hnn
  rw [hp, rec3Of_due env n' _ hd]
  rfl

/-- **ibm_sees_moved_particles_once**: the state after step `n` is, particle by particle, the IBM
    applied once to the moved particle (`ibm n (move n p)`), for the particles of the record state -/
theorem ibm_sees_moved_particles_once (env : RunEnv) (n : Nat) :
    let s := stateAt env n
    let before := (if env.sparse then s.parts.filter (·.alive) else s.parts) ++ assignPids s.npid (env.release n)
    let forced := before.map (env.force n)
    let rec3 := if (env.due n && env.sparse) then forced.filter (·.alive) else forced
    (stateAt env (n + 1)).parts = rec3.map (fun p => env.ibm n (env.move n p)) := by
  intro s before forced rec3
  rw [stateAt_succ, update_parts]
  congr 1

/-- nobody revives a particle and nobody changes a pid -/
structure Sane (env : RunEnv) : Prop where
  force_dead : ∀ n p, p.alive = false → (env.force n p).alive = false
  move_dead : ∀ n p, p.alive = false → (env.move n p).alive = false
  ibm_dead : ∀ n p, p.alive = false → (env.ibm n p).alive = false
  force_pid : ∀ n p, (env.force n p).pid = p.pid
  move_pid : ∀ n p, (env.move n p).pid = p.pid
  ibm_pid : ∀ n p, (env.ibm n p).pid = p.pid
  force_alive : ∀ n p, (env.force n p).alive = p.alive

/-- **ibm_kill_from_next_record**: a particle that is dead when step `m` begins (killed by the
    IBM, or by the tracker, at an earlier step) is in no record written at step `m` or later. -/
theorem ibm_kill_from_next_record (env : RunEnv) (hs : Sane env) (N m : Nat) (pid : Nat)
    (hdead : ∀ p ∈ (stateAt env m).parts, p.pid = pid → p.alive = false)
    (hnot_new : pid < (stateAt env m).npid)
    (n : Nat) (hmn : m ≤ n) (parts : List RP) (hr : ((n : Int), parts) ∈ (env.coldRun N).records) :
    ∀ p ∈ parts, p.pid = pid → p.alive = false := by
  have inv : ∀ d : Nat, (∀ p ∈ (stateAt env (m + d)).parts, p.pid = pid → p.alive = false) ∧
      pid < (stateAt env (m + d)).npid := by
    intro d
    induction d with
    | zero => exact ⟨hdead, hnot_new⟩
    | succ d ih =>
      rw [← Nat.add_assoc, stateAt_succ, update_parts, update_npid]
      refine ⟨?_, by omega⟩
      intro p hp hpid
      rw [List.mem_map] at hp
      obtain ⟨q, hq, rfl⟩ := hp
      obtain ⟨b, hb, rfl⟩ := mem_rec3Of hq
      rw [hs.ibm_pid, hs.move_pid, hs.force_pid] at hpid
      apply hs.ibm_dead; apply hs.move_dead; apply hs.force_dead
      rcases mem_beforeOf hb with h | h
      · exact ih.1 b h hpid
      · omega
  obtain ⟨n', _, hk, hd, hp⟩ := mem_records env N _ _ hr
  have hnn : n' = n := by omega
  subst hnn
  obtain ⟨d, rfl⟩ := Nat.exists_eq_add_of_le hmn
  intro p hpm hpid
  rw [hp] at hpm
  obtain ⟨b, hb, rfl⟩ := mem_rec3Of hpm
  rw [hs.force_pid] at hpid
  apply hs.force_dead
  rcases mem_beforeOf hb with h | h
  · exact (inv d).1 b h hpid
  · have := (inv d).2
    omega

/-- in the sparse layout a record holds living particles only -/
theorem sparse_record_alive (env : RunEnv) (hsp : env.sparse = true) (N : Nat) (n : Int) (parts : List RP)
    (hr : (n, parts) ∈ (env.coldRun N).records) : ∀ p ∈ parts, p.alive = true := by
  obtain ⟨n', _, hk, hd, hp⟩ := mem_records env N _ _ hr
  intro p hpm
  rw [hp, rec3Of_due env n' _ hd, hsp] at hpm
  simpa using (List.mem_filter.mp hpm).2

end Ladim.C19
