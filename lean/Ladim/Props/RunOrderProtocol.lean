import Ladim.Props.RunOrder
import Ladim.Props.C19
/-
RunOrderProtocol — the step protocol (C19) and the record schedule for the loop in the program's
present order (`RunOrder.stepBodyPost`: release, drop the dead, forcing, output, tracker, IBM),
carried over from the theorems about `Model/Run.stepBody` through `RunOrder.coldRun_post` and
`RunOrder.warmRun_post`.
-/

namespace Ladim.RunOrder
open Ladim RunEnv

/-- cold start, program's order: in every step exactly time, release, forcing, output (iff due),
    tracker, IBM — once each, in that order; steps `0 … N−1` in order -/
theorem post_call_log (env : RunEnv) (hs : C14.Sane env) (N : Nat) :
    (coldRunPost env N).log = (List.range N).flatMap (fun (k : Nat) => C19.stepLog env (k : Int)) := by
  rw [(coldRun_post env hs N).2.2]; exact C19.call_log env N

/-- warm start, program's order: release, forcing, tracker, IBM of step 0 (no clock update, no
    output), then steps `1 … N−1` -/
theorem post_call_log_warm (env : RunEnv) (hs : C14.Sane env) (N : Nat) (parts : List RP) (npid : Nat) :
    (warmRunPost env N parts npid).log =
      [(0, Call.release), (0, Call.forcing), (0, Call.tracker), (0, Call.ibm)] ++
      (List.range (N - 1)).flatMap (fun (k : Nat) => C19.stepLog env ((k : Int) + 1)) := by
  rw [(warmRun_post env hs N parts npid).2.2]; exact C19.call_log_warm env N parts npid

/-- the steps at which the program's order writes a record: exactly the due steps `< N` -/
theorem post_record_steps (env : RunEnv) (hs : C14.Sane env) (N : Nat) :
    (coldRunPost env N).records.map (·.1) =
      ((List.range N).map (fun (k : Nat) => (k : Int))).filter (fun n => env.due n) := by
  rw [coldRunPost_records_eq env hs]; exact C19.record_steps env N

/-- in the sparse layout a record of the program's order holds living particles only -/
theorem post_sparse_record_alive (env : RunEnv) (hs : C14.Sane env) (hsp : env.sparse = true) (N : Nat)
    (n : Int) (parts : List RP) (hr : (n, parts) ∈ (coldRunPost env N).records) :
    ∀ p ∈ parts, p.alive = true := by
  rw [coldRunPost_records_eq env hs] at hr
  exact C19.sparse_record_alive env hsp N n parts hr

example : (coldRunPost demoEnv 2).log.length = 11 := by decide

end Ladim.RunOrder
