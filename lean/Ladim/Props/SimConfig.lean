import Ladim.Model.SimConfig
import Ladim.Props.Params
import Ladim.Props.Simulation
/-
C18 / C13 for the whole simulation: the way from the configuration file to the output files
(`runFile`, `runCfg` of `Ladim.Model.SimConfig`) gives the same result for configurations that say the
same thing in different words.

* `v1_v2_same_run`: a legacy (version 1) file and its version-2 translation produce the same output files
  (on the same data), or are refused alike;
* `spelled_dt_same_run`, `spelled_outper_same_run`, `spelled_freq_same_run`: two spellings of a period that
  `normalize_period` maps to the same number of seconds produce the same run, whatever the rest of the
  configuration; `one_minute_same_run` is the instance `60` / `[1, m]` / `PT1M`;
* `omitted_means_default`: the simulation of a configuration that leaves the optional keys out is the one with
  the documented defaults (no advection named: none; layout sparse; one output file; discrete release; no extra
  forcing; whole grid; forward in time);
* `period_in_steps`: the output period of the simulation, in steps, is the configured period divided by the time
  step, rounded down (with its bounds).
-/

namespace Ladim.SimConfig
open Ladim

/-- **v1_v2_same_run** -/
theorem v1_v2_same_run (glob : String → List String) (s : C18.Sim) (hs : C18.SimOK s) (d : SimData) (rnd : Rat → Rat) :
    runFile glob (C18.renderV1 s) d rnd = runFile glob (C18.canonV2 s) d rnd := by
  obtain ⟨h1, h2⟩ := ParamsProps.v1_eq_v2_params glob s hs
  unfold runFile Sim.ofFile
  rw [h1, h2]

/-- runs of configurations with the same parameters are the same -/
theorem runCfg_congr (conf conf' : Cfg) (h : Params.ofCfg conf = Params.ofCfg conf') (d : SimData) (rnd : Rat → Rat) :
    runCfg conf d rnd = runCfg conf' d rnd := by
  unfold runCfg
  rw [h]

/-- **spelled_dt_same_run** -/
theorem spelled_dt_same_run (conf : Cfg) (a b : Cfg) (hd : ∃ l, conf = .dict l)
    (hn : normalizePeriod (periodOf a) = normalizePeriod (periodOf b)) (ht : a.truthy = b.truthy)
    (d : SimData) (rnd : Rat → Rat) :
    runCfg (ParamsProps.setIn conf "time" "dt" a) d rnd = runCfg (ParamsProps.setIn conf "time" "dt" b) d rnd :=
  runCfg_congr _ _ (ParamsProps.spellings_same_params_dt conf a b hd hn ht) d rnd

/-- **spelled_outper_same_run** -/
theorem spelled_outper_same_run (conf : Cfg) (a b : Cfg) (hd : ∃ l, conf = .dict l)
    (hn : normalizePeriod (periodOf a) = normalizePeriod (periodOf b)) (d : SimData) (rnd : Rat → Rat) :
    runCfg (ParamsProps.setIn conf "output" "output_period" a) d rnd =
      runCfg (ParamsProps.setIn conf "output" "output_period" b) d rnd :=
  runCfg_congr _ _ (ParamsProps.spellings_same_params_outper conf a b hd hn) d rnd

/-- **spelled_freq_same_run** -/
theorem spelled_freq_same_run (conf : Cfg) (a b : Cfg) (hd : ∃ l, conf = .dict l)
    (hn : normalizePeriod (periodOf a) = normalizePeriod (periodOf b)) (d : SimData) (rnd : Rat → Rat) :
    runCfg (ParamsProps.setIn conf "release" "release_frequency" a) d rnd =
      runCfg (ParamsProps.setIn conf "release" "release_frequency" b) d rnd :=
  runCfg_congr _ _ (ParamsProps.spellings_same_params_freq conf a b hd hn) d rnd

/-- **one_minute_same_run**: `dt: 60`, `dt: [1, m]` and `dt: PT1M` are the same run in any configuration -/
theorem one_minute_same_run (conf : Cfg) (hd : ∃ l, conf = .dict l) (d : SimData) (rnd : Rat → Rat) :
    runCfg (ParamsProps.setIn conf "time" "dt" (.num 60)) d rnd =
      runCfg (ParamsProps.setIn conf "time" "dt" (.list [.num 1, .str "m"])) d rnd ∧
    runCfg (ParamsProps.setIn conf "time" "dt" (.num 60)) d rnd =
      runCfg (ParamsProps.setIn conf "time" "dt" (.str "PT1M")) d rnd := by
  obtain ⟨h1, h2⟩ := ParamsProps.one_minute_same_params conf hd
  exact ⟨runCfg_congr _ _ h1 d rnd, runCfg_congr _ _ h2 d rnd⟩

/-- a refused configuration is refused by the run with the same status, before anything is read -/
theorem refused_config_refused_run (conf : Cfg) (e : Refusal) (h : Params.ofCfg conf = .error e)
    (d : SimData) (rnd : Rat → Rat) : runCfg conf d rnd = .error e := by
  unfold runCfg
  rw [h]

/-- an accepted configuration runs as the simulation of its parameters -/
theorem accepted_config_run (conf : Cfg) (p : Params) (h : Params.ofCfg conf = .ok p)
    (d : SimData) (rnd : Rat → Rat) : runCfg conf d rnd = (Sim.ofParams d p).run rnd := by
  unfold runCfg
  rw [h]

/-- the simulation takes back exactly the data it was given -/
theorem data_ofParams (d : SimData) (p : Params) (hx : ∀ e ∈ d.rawS, p.extraForcing.contains e.1 = true) :
    (Sim.ofParams d p).data = d := by
  have : d.rawS.filter (fun e => p.extraForcing.contains e.1) = d.rawS := by
    rw [List.filter_eq_self]
    exact hx
  simp only [Sim.ofParams, Sim.data, this]

/-- **omitted_means_default**: a version-2 configuration with a time step and an output period and none of the
    optional keys: no advection, no vertical advection, forward in time, sparse layout, one output file, discrete
    release, no extra forcing, the whole grid -/
theorem omitted_means_default (conf : Cfg) (p : Params) (h : Params.ofCfg conf = .ok p) (d : SimData)
    (hadv : (Params.getD conf "tracker" Cfg.emptyDict).get? "advection" = none)
    (hva : (Params.getD conf "tracker" Cfg.emptyDict).get? "vertical_advection" = none)
    (hrev : (Params.getD conf "time" Cfg.emptyDict).get? "time_reversal" = none)
    (hlay : (Params.getD conf "output" Cfg.emptyDict).get? "layout" = none)
    (hnum : (Params.getD conf "output" Cfg.emptyDict).get? "numrec" = none)
    (hcont : (Params.getD conf "release" Cfg.emptyDict).get? "continuous" = none)
    (hxf : (Params.getD conf "forcing" Cfg.emptyDict).get? "extra_forcing" = none)
    (hsub : (Params.getD conf "grid" Cfg.emptyDict).get? "subgrid" = none) :
    let s := Sim.ofParams d p
    s.scheme = .none ∧ s.vertAdv = false ∧ s.rev = false ∧ s.sparse = true ∧ s.numrec = 0 ∧
    s.continuous = false ∧ s.rawS = [] ∧ s.sub = none := by
  obtain ⟨d1, d2, -, -, d5, d6, d7, -, d9, d10, d11⟩ := ParamsProps.defaults conf p h
  have e1 := d1 hrev
  have e2 := d2 hadv
  have e5 := d5 hva
  obtain ⟨e6, -⟩ := d6 hnum
  have e7 := d7 hlay
  obtain ⟨e9, -⟩ := d9 hcont
  have e10 := d10 hxf
  have e11 := d11 hsub
  refine ⟨?_, ?_, ?_, ?_, ?_, ?_, ?_, ?_⟩
  · show schemeOf p.advection = .none
    rw [e2]; rfl
  · exact e5
  · exact e1
  · show (p.layout != "dense") = true
    rw [e7]; decide
  · show (if p.multifile then p.numrec else 0) = 0
    rw [e6]; rfl
  · exact e9
  · show d.rawS.filter (fun e => p.extraForcing.contains e.1) = []
    rw [e10]
    simp
  · show subOf p.subgrid = none
    rw [e11]; rfl

/-- **period_in_steps**: the simulation's output period in steps times the time step is the largest multiple of the
    time step that does not exceed the configured period -/
theorem period_in_steps (conf : Cfg) (p : Params) (h : Params.ofCfg conf = .ok p) (hdt : 0 < p.dt) (d : SimData) :
    let s := Sim.ofParams d p
    s.dt = p.dt ∧ s.period * s.dt ≤ (if p.rev then -p.outPeriod else p.outPeriod) ∧
      (if p.rev then -p.outPeriod else p.outPeriod) < (s.period + 1) * s.dt := by
  obtain ⟨op, -, hop, -, hb⟩ := ParamsProps.derived_signed conf p h
  obtain ⟨b1, b2, -⟩ := hb hdt
  have hback : (if p.rev then -p.outPeriod else p.outPeriod) = op := by
    rw [hop]
    cases p.rev <;> simp
  refine ⟨rfl, ?_, ?_⟩
  · show p.outPeriodStep * p.dt ≤ _
    rw [hback]; exact b1
  · show _ < (p.outPeriodStep + 1) * p.dt
    rw [hback]; exact b2

/-! ### non-vacuity: the small configured tree of `ParamsProps` is accepted, meets the hypotheses of
`omitted_means_default`, and its simulation has a period of two steps of a minute -/

def exParams : Params :=
  { dt := 60, rev := false, hasRef := false, advection := "", diffusion := false, vertDiff := false,
    vertAdv := false, outPeriod := 120, outPeriodStep := 2, multifile := false, numrec := 999999,
    layout := "sparse", skipInitial := false, continuous := false, relFreq := none,
    extraForcing := [], subgrid := none }

example : Params.ofCfg ParamsProps.exConf = .ok exParams ∧ 0 < exParams.dt ∧ exParams.outPeriodStep = 2 ∧
    (Params.getD ParamsProps.exConf "tracker" Cfg.emptyDict).get? "advection" = none ∧
    (Params.getD ParamsProps.exConf "output" Cfg.emptyDict).get? "numrec" = none ∧
    (Params.getD ParamsProps.exConf "grid" Cfg.emptyDict).get? "subgrid" = none := by
  decide

end Ladim.SimConfig
