import Ladim.Model.Simulation
import Ladim.Props.Whole
import Ladim.Props.WholeOutput
import Ladim.Props.WholeForcing
import Ladim.Props.C04
import Ladim.Props.C13
/-
Composition at the top: `Sim.run` is the whole program for a set-up with the built-in
components (what the driver op `run` executes and the correspondence check compares with complete
runs of ladim).  The theorems here carry the component theorems to it:

* which set-ups are refused, with which status, and that a refusal carries no result at all
  (C20, C13, C04);
* the number of steps (C13);
* which particles enter at which step (C04), the pid counter at the end (C05/C04);
* every record of a cold sparse run is the per-particle specification (C14, C19), its files
  are faithful, complete and closed (C06, C07);
* the velocity every particle samples is the space–time interpolation of the forcing frames
  (C02, C03).
-/

namespace Ladim.Simulation
open Ladim

/-- the environment of the time loop of an accepted run -/
def envOf (s : Sim) (g : GridM) (rel : Rel) (nsteps : Nat) (rnd : Rat → Rat) : RunEnv :=
  (s.setup g (nsteps + 1) (rel.run 0 (nsteps + 1)) rnd).env

/-- the parts of an accepted run -/
structure Parts (s : Sim) (rnd : Rat → Rat) (res : SimResult) (tk : TK) (g : GridM) (rel : Rel) : Prop where
  htk : TK.init (some s.start) (some s.stop) s.dt s.ref s.rev = .ok tk
  hgrid : mkGrid s.file s.sub = some g
  hrel : Rel.init s.relCfg s.rows = .ok rel
  hnsteps : res.nsteps = tk.nsteps.toNat
  hfinal : res.final = match s.warm with
    | none => (envOf s g rel res.nsteps rnd).coldRun res.nsteps
    | some w => (envOf s g rel res.nsteps rnd).warmRun res.nsteps w.parts w.npid
  hfiles : res.files = (s.outSpec tk (rel.run 0 (res.nsteps + 1))).runFiles (if s.sparse then .sparse else .dense)
      res.nsteps s.period s.numrec s.stem s.suffix res.final.records s.warm.isSome

/-- **run_ok**: an accepted run is the composition of the component models -/
theorem run_ok (s : Sim) (rnd : Rat → Rat) (res : SimResult) (h : s.run rnd = .ok res) :
    ∃ tk g rel, Parts s rnd res tk g rel := by
  unfold Sim.run at h
  split at h
  · cases h
  · rename_i tk htk
    split at h
    · cases h
    · rename_i g hg
      split at h
      · cases h
      · rename_i rel hrel
        injection h with h
        subst h
        exact ⟨tk, g, rel, htk, hg, hrel, rfl, rfl, rfl⟩

/-- **run_refuses_iff**: a set-up is refused exactly when the clock, the grid or the release
    refuses it, with that component's status; nothing else stops a run before it starts -/
theorem run_refuses_iff (s : Sim) (rnd : Rat → Rat) (e : Refusal) :
    s.run rnd = .error e ↔
      TK.init (some s.start) (some s.stop) s.dt s.ref s.rev = .error e ∨
      ((∃ tk, TK.init (some s.start) (some s.stop) s.dt s.ref s.rev = .ok tk) ∧
        mkGrid s.file s.sub = none ∧ e = .exit1) ∨
      ((∃ tk, TK.init (some s.start) (some s.stop) s.dt s.ref s.rev = .ok tk) ∧
        (∃ g, mkGrid s.file s.sub = some g) ∧ Rel.init s.relCfg s.rows = .error e) := by
  unfold Sim.run
  cases htk : TK.init (some s.start) (some s.stop) s.dt s.ref s.rev with
  | error e' => simp
  | ok tk =>
    cases hg : mkGrid s.file s.sub with
    | none => simp [eq_comm]
    | some g =>
      cases hrel : Rel.init s.relCfg s.rows with
      | error e' => simp
      | ok rel => simp

/-- a missing time step is refused -/
theorem refuses_zero_dt (s : Sim) (rnd : Rat → Rat) (h : s.dt = 0) : s.run rnd = .error .exit3 :=
  (run_refuses_iff s rnd .exit3).2 (Or.inl (by simp [TK.init, h]))

/-- stop on the wrong side of start for the chosen direction is refused -/
theorem refuses_wrong_side (s : Sim) (rnd : Rat → Rat) (h : ¬ (s.rev = true ↔ s.stop < s.start)) :
    s.run rnd = .error .exit3 := by
  apply (run_refuses_iff s rnd .exit3).2
  left
  unfold TK.init
  simp only
  split
  · rfl
  · cases hr : s.rev <;> simp [hr] at h ⊢ <;> omega

/-- an illegal subgrid (or grid file content) is refused once the clock is accepted -/
theorem refuses_bad_grid (s : Sim) (rnd : Rat → Rat) (tk : TK)
    (htk : TK.init (some s.start) (some s.stop) s.dt s.ref s.rev = .ok tk) (hg : mkGrid s.file s.sub = none) :
    s.run rnd = .error .exit1 :=
  (run_refuses_iff s rnd .exit1).2 (Or.inr (Or.inl ⟨⟨tk, htk⟩, hg, rfl⟩))

theorem relCfg_warm (s : Sim) (hw : s.warm = none) : s.relCfg.warm = false := by
  simp [Sim.relCfg, hw]

/-- no release inside the window: refused (cold start, discrete release) -/
theorem refuses_empty_window (s : Sim) (rnd : Rat → Rat) (tk : TK) (g : GridM)
    (htk : TK.init (some s.start) (some s.stop) s.dt s.ref s.rev = .ok tk) (hg : mkGrid s.file s.sub = some g)
    (hc : s.continuous = false) (hw : s.warm = none)
    (h : ∀ x ∈ s.rows, C04.inWindow s.relCfg x.time = false) : s.run rnd = .error .exit3 :=
  (run_refuses_iff s rnd .exit3).2 (Or.inr (Or.inr ⟨⟨tk, htk⟩, ⟨g, hg⟩,
    C04.init_refuses s.relCfg s.rows hc (relCfg_warm s hw) h⟩))

/-- **accepts_iff** (cold start, discrete release): the set-up runs iff the clock is consistent,
    the grid is legal and some release row lies in `[start, stop)` -/
theorem accepts_iff (s : Sim) (rnd : Rat → Rat) (hc : s.continuous = false) (hw : s.warm = none) :
    (∃ res, s.run rnd = .ok res) ↔
      (s.dt ≠ 0 ∧ (s.rev = true ↔ s.stop < s.start)) ∧ (∃ g, mkGrid s.file s.sub = some g) ∧
      ∃ x ∈ s.rows, C04.inWindow s.relCfg x.time = true := by
  constructor
  · rintro ⟨res, h⟩
    obtain ⟨tk, g, rel, hp⟩ := run_ok s rnd res h
    obtain ⟨a, b, ha, hb, hdt, hside⟩ := (C13.init_accepts_iff _ _ _ _ _).1 ⟨tk, hp.htk⟩
    injection ha with ha
    injection hb with hb
    subst ha hb
    exact ⟨⟨hdt, hside⟩, ⟨g, hp.hgrid⟩,
      (C04.init_accepts_iff s.relCfg s.rows hc (relCfg_warm s hw)).1 ⟨rel, hp.hrel⟩⟩
  · rintro ⟨⟨hdt, hside⟩, ⟨g, hg⟩, hx⟩
    obtain ⟨tk, htk⟩ := (C13.init_accepts_iff (some s.start) (some s.stop) s.dt s.ref s.rev).2
      ⟨s.start, s.stop, rfl, rfl, hdt, hside⟩
    obtain ⟨rel, hrel⟩ := (C04.init_accepts_iff s.relCfg s.rows hc (relCfg_warm s hw)).2 hx
    unfold Sim.run
    simp only [htk, hg, hrel]
    exact ⟨_, rfl⟩

/-- **nsteps_floor**: the run has `⌊|stop − start| / dt⌋` steps -/
theorem nsteps_floor (s : Sim) (rnd : Rat → Rat) (res : SimResult) (h : s.run rnd = .ok res) (hdt : 0 < s.dt) :
    (res.nsteps : Int) * s.dt ≤ |s.stop - s.start| ∧ |s.stop - s.start| < ((res.nsteps : Int) + 1) * s.dt := by
  obtain ⟨tk, g, rel, hp⟩ := run_ok s rnd res h
  obtain ⟨h0, h1, h2⟩ := C13.nsteps_floor hp.htk hdt
  have : (res.nsteps : Int) = tk.nsteps := by rw [hp.hnsteps]; exact Int.toNat_of_nonneg h0
  rw [this]
  exact ⟨h1, h2⟩

/-- every entry of a release table carries its own step as key -/
theorem run_key : ∀ (n : Nat) (rel : Rel) (first : Int) (j : Nat) (key : Int) (out : List RRow),
    (rel.run first n)[j]? = some (key, out) → key = first + (j : Int) := by
  intro n
  induction n with
  | zero => intro rel first j key out h; simp [Rel.run] at h
  | succ n ih =>
    intro rel first j key out h
    simp only [Rel.run] at h
    cases j with
    | zero =>
      simp only [List.getElem?_cons_zero, Option.some.injEq, Prod.mk.injEq] at h
      simp [h.1.symm]
    | succ j =>
      rw [List.getElem?_cons_succ] at h
      have := ih _ _ _ _ _ h
      rw [this]; push_cast; omega

/-- looking a step up in the release table of a run -/
theorem relTable_lookup (rel : Rel) (n k : Nat) (hk : k < n) (out : List RRow)
    (h : (rel.run 0 n)[k]? = some ((k : Int), out)) : (rel.run 0 n).lookup (k : Int) = some out := by
  apply WholeOutput.lookup_of_unique
  · exact List.mem_of_getElem? h
  · intro v' hv'
    obtain ⟨j, hj⟩ := List.getElem?_of_mem hv'
    have hkey := run_key n rel 0 j _ _ hj
    have : j = k := by omega
    subst this
    rw [h] at hj
    injection hj with hj
    injection hj with _ hj
    exact hj.symm

/-- **release_schedule** (cold start, discrete release, table sorted in simulation order with
    times on the model time grid): at step `k` of the run exactly the rows of the window whose
    time falls on step `k` enter the state, each `mult` times, in file-row order, with the row's
    position and column values (defaults for columns the row lacks) -/
theorem release_schedule (s : Sim) (rnd : Rat → Rat) (res : SimResult) (tk : TK) (g : GridM) (rel : Rel)
    (hp : Parts s rnd res tk g rel) (hdt : 0 < s.dt) (hc : s.continuous = false) (hw : s.warm = none)
    (hs : C04.SimSorted s.rev s.rows) (hg : C04.OnGrid s.relCfg s.rows) (k : Nat) (hk : k ≤ res.nsteps) :
    (envOf s g rel res.nsteps rnd).release (k : Int) =
      (Rel.expand ((s.rows.filter (fun x => C04.inWindow s.relCfg x.time && C04.stepOf s.relCfg x.time == (k : Int))).map
        (C04.decorate s.relCfg))).map s.rowToRP := by
  have h := C04.released_at_step s.relCfg s.rows hdt hc (relCfg_warm s hw) hs hg rel hp.hrel
    (res.nsteps + 1) k (by omega)
  have hl := relTable_lookup rel (res.nsteps + 1) k (by omega) _ h
  show (((rel.run 0 (res.nsteps + 1)).lookup (k : Int)).getD []).map s.rowToRP = _
  rw [hl]
  rfl

theorem stateAt_npid (env : RunEnv) (n : Nat) :
    (C19.stateAt env n).npid = ((List.range n).map (fun (k : Nat) => (env.release (k : Int)).length)).sum := by
  induction n with
  | zero => rfl
  | succ n ih =>
    rw [C19.stateAt_succ, C19.update_npid, ih, List.range_succ, List.map_append, List.sum_append]
    simp

/-- **npid_accounting** (cold start): at the end the pid counter equals the number of particles
    released at the steps `0 … nsteps-1` the loop performs -/
theorem npid_accounting (s : Sim) (rnd : Rat → Rat) (res : SimResult) (tk : TK) (g : GridM) (rel : Rel)
    (hp : Parts s rnd res tk g rel) (hw : s.warm = none) :
    res.final.npid = ((List.range res.nsteps).map (fun (k : Nat) => ((envOf s g rel res.nsteps rnd).release (k : Int)).length)).sum := by
  have hf := hp.hfinal
  rw [hw] at hf
  rw [hf, C19.coldRun_eq, stateAt_npid]

/-- **records_are_spec** (cold start, sparse layout): the record of every due step of the run is
    the per-particle specification (every particle released so far, numbered in release order,
    advanced on its own through tracker, IBM and forcing, the dead ones left out), and no
    other record carries that step -/
theorem records_are_spec (s : Sim) (rnd : Rat → Rat) (res : SimResult) (tk : TK) (g : GridM) (rel : Rel)
    (hp : Parts s rnd res tk g rel) (hw : s.warm = none) (hsp : s.sparse = true)
    (n : Nat) (hn : n < res.nsteps) (hdue : Int.fmod (n : Int) s.period = 0) :
    ((n : Int), RunEnv.specRecord (envOf s g rel res.nsteps rnd) n) ∈ res.final.records ∧
    ∀ parts, ((n : Int), parts) ∈ res.final.records → parts = RunEnv.specRecord (envOf s g rel res.nsteps rnd) n := by
  have hf := hp.hfinal
  rw [hw] at hf
  rw [hf]
  exact C14.run_refines_spec (envOf s g rel res.nsteps rnd)
    (Whole.env_sane (s.setup g (res.nsteps + 1) (rel.run 0 (res.nsteps + 1)) rnd)) hsp res.nsteps n hn
    (by show (Int.fmod (n : Int) s.period == 0) = true; rw [hdue]; rfl)

/-- **files_faithful** (cold start, sparse layout): the run ends normally, the records retrieved
    from its files are, in order, the specified records of the output steps `0, p, 2p, … < nsteps`,
    and every file is closed -/
theorem files_faithful (s : Sim) (rnd : Rat → Rat) (res : SimResult) (tk : TK) (g : GridM) (rel : Rel)
    (hp : Parts s rnd res tk g rel) (hw : s.warm = none) (hsp : s.sparse = true)
    (hper : 1 ≤ s.period) (hnum : 0 ≤ s.numrec)
    (hnd : (s.outIv.filter (fun n => n != "pid")).Nodup)
    (hbig : s.numrec = 0 → Out.predictRecords res.nsteps s.period false ≤ 999999) :
    ∃ fs, res.files = .ok fs ∧
      C06.allRecords fs = (C07.dueSteps res.nsteps s.period).map
        (WholeOutput.specRec (s.outSpec tk (rel.run 0 (res.nsteps + 1))) (envOf s g rel res.nsteps rnd)) ∧
      (∀ f ∈ fs, f.closed = true) := by
  have hf := hp.hfinal
  rw [hw] at hf
  have hfl := hp.hfiles
  rw [hw, hsp, hf] at hfl
  rw [hfl]
  exact WholeOutput.output_files_faithful (s.outSpec tk (rel.run 0 (res.nsteps + 1)))
    (envOf s g rel res.nsteps rnd)
    (Whole.env_sane (s.setup g (res.nsteps + 1) (rel.run 0 (res.nsteps + 1)) rnd)) hsp res.nsteps
    s.period s.numrec hper hnum (fun _ => rfl) hnd hbig s.stem s.suffix

/-- `tabulate` is the function it tabulates, inside the table -/
theorem tabulate_eq (nf ni : Nat) (fn : Nat → Nat → Field3) (f i : Nat) (hf : f < nf) (hi : i < ni) :
    tabulate nf ni fn f i = fn f i := by
  simp [tabulate, hf, hi]

theorem interpFrames_congr (frames : List Frame) (val val' : Nat → Nat → Rat) (t : Rat)
    (h : ∀ a ∈ frames, val a.file a.idx = val' a.file a.idx) :
    interpFrames frames val t = interpFrames frames val' t := by
  unfold interpFrames
  simp only
  cases hb : (frames.filter (fun f => (f.step : Rat) ≤ t)).getLast? with
  | none => rfl
  | some a =>
    have ha : a ∈ frames := (List.mem_filter.1 (List.mem_of_getLast? hb)).1
    cases hc : (frames.filter (fun f => t < (f.step : Rat))).head? with
    | none => simp only [h a ha]
    | some b =>
      have hb' : b ∈ frames := (List.mem_filter.1 (List.mem_of_mem_head? hc)).1
      simp only [h a ha, h b hb']

/-- tabulating the arrays does not change the interpolated field -/
theorem interpField_tabulate (frames : List Frame) (fn : Nat → Nat → Field3) (t : Rat) :
    interpField frames (tabulate ((frames.map (·.file)).foldl max 0 + 1) ((frames.map (·.idx)).foldl max 0 + 1) fn) t
      = interpField frames fn t := by
  have hin : ∀ a ∈ frames, tabulate ((frames.map (·.file)).foldl max 0 + 1)
      ((frames.map (·.idx)).foldl max 0 + 1) fn a.file a.idx = fn a.file a.idx := by
    intro a ha
    apply tabulate_eq
    · have := (C08.foldl_max_ge (frames.map (·.file)) 0).2 a.file (List.mem_map_of_mem ha)
      omega
    · have := (C08.foldl_max_ge (frames.map (·.idx)) 0).2 a.idx (List.mem_map_of_mem ha)
      omega
  have hshape : shapeOf frames (tabulate ((frames.map (·.file)).foldl max 0 + 1)
      ((frames.map (·.idx)).foldl max 0 + 1) fn) = shapeOf frames fn := by
    cases frames with
    | nil => rfl
    | cons f0 rest => exact hin f0 (List.mem_cons_self ..)
  unfold interpField
  rw [hshape]
  congr 1
  funext k j i
  rw [interpFrames_congr frames _ (nodeVal fn k j i) t]
  intro a ha
  simp only [nodeVal, hin a ha]

/-- **velocity_seen**: the velocity a particle samples at fraction `frac` of step `n` of the run
    (`frac = 0` or `1/1000 ≤ frac ≤ 1`) is the C-grid interpolation `sampleVel` of the U and V
    frames — windowed to the subgrid — interpolated linearly in time at `n + frac`; when the
    forcing frames are sorted and cover the run -/
theorem velocity_seen (s : Sim) (rnd : Rat → Rat) (g : GridM) (rel : Rel) (nsteps : Nat)
    (hs : C03.Sorted s.frames) (hc : C03.Covers s.frames (nsteps : Int)) (n : Nat) (hn : n < nsteps)
    (frac : Rat) (hf : frac = 0 ∨ (1/1000 ≤ frac ∧ frac ≤ 1)) (x0 y0 z0 x y : Rat) :
    (s.setup g (nsteps + 1) (rel.run 0 (nsteps + 1)) rnd).oracle (n : Int) x0 y0 z0 frac x y =
      sampleVel g (interpField s.frames (fun fi ix => windowU g (s.rawU fi ix) none) ((n : Rat) + frac))
        (interpField s.frames (fun fi ix => windowV g (s.rawV fi ix) none) ((n : Rat) + frac))
        (if s.rev then -1 else 1) x0 y0 z0 x y := by
  unfold Sim.setup
  rw [WholeForcing.oracle_space_time (s.forcingSetup g (nsteps + 1)) g _ _ _ _ _ _ _ _ (nsteps : Int)
    hs hc n (by exact_mod_cast hn) (by show n < nsteps + 1; omega) frac hf]
  show sampleVel g (interpField s.frames (tabulate _ _ _) _) (interpField s.frames (tabulate _ _ _) _) _ _ _ _ _ _ = _
  rw [interpField_tabulate, interpField_tabulate]

/-! ### non-vacuity: the hypotheses of `release_schedule` on the table are satisfiable -/

def exCfg : RelCfg :=
  { start := 0, stop := 300, dt := 60, rev := false, continuous := false, freq := 60, warm := false,
    releaseTimeCol := false }

def exRows : List RRow := [⟨0, 1, [("X", .num 1)]⟩, ⟨120, 2, [("X", .num 2)]⟩]

example : C04.SimSorted false exRows ∧ C04.OnGrid exCfg exRows := by
  constructor
  · simp [C04.SimSorted, exRows, Rel.before]
  · intro r hr
    simp only [exRows, List.mem_cons, List.not_mem_nil, or_false] at hr
    rcases hr with rfl | rfl <;> decide

/-- the same table is accepted by the releaser and both rows lie in the window -/
example : (∃ r, Rel.init exCfg exRows = .ok r) ∧ ∀ x ∈ exRows, C04.inWindow exCfg x.time = true := by
  constructor
  · exact (C04.init_accepts_iff exCfg exRows rfl rfl).2 ⟨⟨0, 1, [("X", .num 1)]⟩, by simp [exRows], by decide⟩
  · intro x hx
    simp only [exRows, List.mem_cons, List.not_mem_nil, or_false] at hx
    rcases hx with rfl | rfl <;> decide


/-! ### the window and the steps of the loop

`Nsteps = ⌊|stop − start| / dt⌋` (C13) and the loop performs the steps `0 … Nsteps−1`.  When the
window is a whole number of steps long, every time of `[start, stop)` on the model time grid
falls on a step the loop performs, so every release row of the window is released and every
output time of the window is written.  When it is not, the times of
`[start + Nsteps·dt, stop)` are in the window but beyond the last step: the hypothesis
`dt ∣ stop − start` below cannot be dropped (`tail_unreached` is the witness; the
implementation behaves the same way — known finding F21). -/


/-- in a window that is a whole number of steps long, an in-window time on the model time grid
    falls on one of the steps `0 … N−1` (`N` the number of steps of C13) -/
theorem window_step_lt (c : RelCfg) (hdt : 0 < c.dt) (hdiv : c.dt ∣ c.stop - c.start)
    (t : Int) (hw : C04.inWindow c t = true) (hg : c.dt ∣ t - c.start)
    (N : Int) (_hN1 : N * c.dt ≤ |c.stop - c.start|) (hN2 : |c.stop - c.start| < (N + 1) * c.dt) :
    0 ≤ C04.stepOf c t ∧ C04.stepOf c t < N := by
  unfold C04.inWindow at hw
  simp only [Bool.and_eq_true, Bool.not_eq_true'] at hw
  obtain ⟨hw1, hw2⟩ := hw
  refine ⟨C04.stepOf_nonneg c hdt hg hw1, ?_⟩
  have hmul := C04.stepOf_mul c hdt t hg
  rw [C04.before_iff_sd] at hw2
  rw [C04.before_false_iff_sd, C04.sd_start] at hw1
  -- the length of the window, in simulation direction, is `|stop − start|`, a multiple of `dt`
  have hlen : C04.sd c c.stop = |c.stop - c.start| ∧ c.dt ∣ C04.sd c c.stop := by
    unfold C04.sd at hw1 hw2 ⊢
    cases hr : c.rev
    · simp only [hr, Bool.false_eq_true, if_false] at hw1 hw2 ⊢
      exact ⟨(abs_of_pos (by omega)).symm, hdiv⟩
    · simp only [hr, if_true] at hw1 hw2 ⊢
      refine ⟨?_, ?_⟩
      · rw [abs_of_neg (by omega)]; omega
      · have := Int.dvd_neg.2 hdiv; rwa [Int.neg_sub] at this
  obtain ⟨habs, m, hm⟩ := hlen
  rw [← habs, hm] at hN2
  rw [hm, ← hmul] at hw2
  have h1 : C04.stepOf c t < m := Int.lt_of_mul_lt_mul_left hw2 (le_of_lt hdt)
  have h2 : m < N + 1 := by
    rw [Int.mul_comm c.dt m] at hN2
    exact Int.lt_of_mul_lt_mul_right hN2 (le_of_lt hdt)
  omega

/-- **window_rows_released** (cold start, discrete release, sorted table on the model time grid,
    window a whole number of steps long): every row of the table whose time lies in
    `[start, stop)` enters the state at a step `k` the loop performs — the step of its time —
    `mult` times (by `release_schedule` the particles entering at `k` are exactly the expanded
    rows of that step) -/
theorem window_rows_released (s : Sim) (rnd : Rat → Rat) (res : SimResult) (tk : TK) (g : GridM) (rel : Rel)
    (hp : Parts s rnd res tk g rel) (hdt : 0 < s.dt) (hdiv : s.dt ∣ s.stop - s.start)
    (hc : s.continuous = false) (hw : s.warm = none)
    (hs : C04.SimSorted s.rev s.rows) (hg : C04.OnGrid s.relCfg s.rows)
    (x : RRow) (hx : x ∈ s.rows) (hwin : C04.inWindow s.relCfg x.time = true) :
    ∃ k : Nat, k < res.nsteps ∧ C04.stepOf s.relCfg x.time = (k : Int) ∧
      ((envOf s g rel res.nsteps rnd).release (k : Int)).count (s.rowToRP (C04.decorate s.relCfg x)) ≥ x.mult := by
  obtain ⟨h0, h1, h2⟩ := C13.nsteps_floor hp.htk hdt
  have hN : (res.nsteps : Int) = tk.nsteps := by rw [hp.hnsteps]; exact Int.toNat_of_nonneg h0
  rw [← hN] at h1 h2
  obtain ⟨hs0, hs1⟩ := window_step_lt s.relCfg hdt hdiv x.time hwin (hg x hx) (res.nsteps : Int) h1 h2
  have hk : ((C04.stepOf s.relCfg x.time).toNat : Int) = C04.stepOf s.relCfg x.time :=
    Int.toNat_of_nonneg hs0
  refine ⟨(C04.stepOf s.relCfg x.time).toNat, by omega, hk.symm, ?_⟩
  rw [release_schedule s rnd res tk g rel hp hdt hc hw hs hg _ (by omega)]
  have hmem : C04.decorate s.relCfg x ∈
      (s.rows.filter (fun y => C04.inWindow s.relCfg y.time &&
        C04.stepOf s.relCfg y.time == (((C04.stepOf s.relCfg x.time).toNat : Nat) : Int))).map
        (C04.decorate s.relCfg) := by
    apply List.mem_map_of_mem
    rw [List.mem_filter]
    refine ⟨hx, ?_⟩
    simp only [Bool.and_eq_true, beq_iff_eq]
    exact ⟨hwin, hk.symm⟩
  have hsub : List.Sublist (List.replicate x.mult (C04.decorate s.relCfg x))
      (Rel.expand ((s.rows.filter (fun y => C04.inWindow s.relCfg y.time &&
        C04.stepOf s.relCfg y.time == (((C04.stepOf s.relCfg x.time).toNat : Nat) : Int))).map
        (C04.decorate s.relCfg))) := by
    unfold Rel.expand
    rw [List.flatMap_def]
    apply List.sublist_flatten_of_mem
    rw [List.mem_map]
    exact ⟨_, hmem, by rw [C04.decorate_mult]⟩
  have hcount := (hsub.map s.rowToRP).count_le (s.rowToRP (C04.decorate s.relCfg x))
  rw [List.map_replicate, List.count_replicate_self] at hcount
  exact hcount

/-- the witness that `dt ∣ stop − start` is needed: start 0, stop 160, dt 64 — two steps; the
    time 128 is in the window and on the model time grid, and its step is 2 -/
theorem tail_unreached :
    let c : RelCfg := { start := 0, stop := 160, dt := 64, rev := false, continuous := false, freq := 64,
                        warm := false, releaseTimeCol := false }
    C04.inWindow c 128 = true ∧ c.dt ∣ (128 : Int) - c.start ∧ C04.stepOf c 128 = 2 ∧
      (∀ tk, TK.init (some c.start) (some c.stop) c.dt none c.rev = .ok tk → tk.nsteps = 2) := by
  intro c
  refine ⟨by decide, by decide, by decide, ?_⟩
  intro tk h
  rw [(C13.init_started h).hnsteps]
  decide

end Ladim.Simulation
