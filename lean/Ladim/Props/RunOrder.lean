import Ladim.Props.C14
/-
RunOrder — the order of "drop the dead" and "release" inside one step does not matter.

Since repair F26 the program removes the dead *after* the release of a step (so that a particle
released dead never reaches the forcing arrays); the loop of `Ladim.Model.Run` (`stepBody`) keeps
the earlier order (remove, release, force).  `stepBodyPost` is the loop in the program's present
order.  `updates_post_rel`: for every sane environment the two loops write the same records, hand
out the same pids and make the same calls, for every number of steps and from every pair of
states that agree on their living particles; `coldRun_post`, `warmRun_post`: so do whole runs.
In the dense layout the two bodies are the same function (`stepBodyPost_dense`).
-/

namespace Ladim.RunOrder
open Ladim RunEnv

/-- `Model.update` after F26: release → drop the dead (sparse layout) → forcing → output → tracker → IBM -/
def stepBodyPost (env : RunEnv) (n : Int) (withOutput : Bool) (s : RState) : RState :=
  let new := assignPids s.npid (env.release n)
  let parts1 := s.parts ++ new
  let parts0 := if env.sparse then parts1.filter (·.alive) else parts1
  let parts2 := parts0.map (env.force n)
  let doOut := withOutput && decide (0 ≤ n) && env.due n
  let parts3 := if doOut && env.sparse then parts2.filter (·.alive) else parts2
  let parts4 := parts3.map (env.move n)
  let parts5 := parts4.map (env.ibm n)
  { parts := parts5, npid := s.npid + new.length,
    log := s.log ++ [(n, Call.release), (n, Call.forcing)] ++ (if doOut then [(n, Call.output)] else [])
             ++ [(n, Call.tracker), (n, Call.ibm)],
    records := if doOut then s.records ++ [(n, parts3)] else s.records }

def updatePost (env : RunEnv) (n : Int) (s : RState) : RState :=
  stepBodyPost env n true { s with log := s.log ++ [(n, Call.time)] }

def updatesPost (env : RunEnv) (first : Int) : Nat → RState → RState
  | 0, s => s
  | k + 1, s => updatesPost env (first + 1) k (updatePost env first s)

def coldRunPost (env : RunEnv) (nsteps : Nat) : RState := updatesPost env 0 nsteps RunEnv.empty

def warmRunPost (env : RunEnv) (nsteps : Nat) (parts : List RP) (npid : Nat) : RState :=
  let s0 : RState := { parts := parts, npid := npid, log := [], records := [] }
  updatesPost env 1 (nsteps - 1) (stepBodyPost env 0 false s0)

/-- the two loops' states: same living particles, same counter, same calls, same records -/
structure Rel (s t : RState) : Prop where
  parts : t.parts.filter (·.alive) = s.parts.filter (·.alive)
  npid : t.npid = s.npid
  log : t.log = s.log
  records : t.records = s.records

theorem Rel.refl (s : RState) : Rel s s := ⟨rfl, rfl, rfl, rfl⟩

/-- in the dense layout nothing is removed, so the two bodies are one function -/
theorem stepBodyPost_dense (env : RunEnv) (h : env.sparse = false) (n : Int) (w : Bool) (s : RState) :
    stepBodyPost env n w s = stepBody env n w s := by
  simp [stepBodyPost, stepBody, h]

/-- a map that keeps the dead dead sees only the living, as far as the living are concerned -/
theorem filter_map_dead (f : RP → RP) (hf : ∀ p, p.alive = false → (f p).alive = false) (xs : List RP) :
    (xs.map f).filter (·.alive) = ((xs.filter (·.alive)).map f).filter (·.alive) := by
  induction xs with
  | nil => rfl
  | cons x xs ih =>
    cases hx : x.alive
    · simp [List.filter, hx, hf x hx, ih]
    · simp only [List.map_cons, List.filter_cons, hx, if_true]
      split <;> simp_all

theorem filter_map_keep (f : RP → RP) (hf : ∀ p, (f p).alive = p.alive) (xs : List RP) :
    (xs.map f).filter (·.alive) = (xs.filter (·.alive)).map f := by
  induction xs with
  | nil => rfl
  | cons x xs ih =>
    cases hx : x.alive <;> simp [List.filter, hx, hf x, ih]


theorem filter_gstep (env : RunEnv) (hs : C14.Sane env) (n : Int) (xs ys : List RP)
    (h : xs.filter (·.alive) = ys.filter (·.alive)) :
    ((xs.map (env.move n)).map (env.ibm n)).filter (·.alive)
      = ((ys.map (env.move n)).map (env.ibm n)).filter (·.alive) := by
  rw [filter_map_dead _ (hs.ibm_dead n) (xs.map (env.move n)),
      filter_map_dead _ (hs.ibm_dead n) (ys.map (env.move n)),
      filter_map_dead _ (hs.move_dead n) xs, filter_map_dead _ (hs.move_dead n) ys, h]

/-- one step: the two orders keep the relation (sparse layout) -/
theorem step_rel (env : RunEnv) (hs : C14.Sane env) (hsp : env.sparse = true) (n : Int) (w : Bool)
    (s t : RState) (h : Rel s t) : Rel (stepBody env n w s) (stepBodyPost env n w t) := by
  obtain ⟨hp, hn, hl, hr⟩ := h
  -- what reaches the forcing, in the two orders
  have key : (((t.parts ++ assignPids s.npid (env.release n)).filter (·.alive)).map (env.force n)).filter (·.alive)
      = ((s.parts.filter (·.alive) ++ assignPids s.npid (env.release n)).map (env.force n)).filter (·.alive) := by
    rw [filter_map_keep _ (hs.force_alive n), filter_map_keep _ (hs.force_alive n)]
    simp [List.filter_append, List.filter_filter, hp]
  have key2 : ((t.parts ++ assignPids s.npid (env.release n)).filter (·.alive)).map (env.force n)
      = ((s.parts.filter (·.alive) ++ assignPids s.npid (env.release n)).map (env.force n)).filter (·.alive) := by
    rw [← key, filter_map_keep _ (hs.force_alive n)]
    simp [List.filter_filter]
  constructor
  · simp only [stepBody, stepBodyPost, hsp, hn, if_true, Bool.and_true]
    apply filter_gstep env hs
    split
    · simp only [List.filter_filter, Bool.and_self]; exact key
    · exact key
  · simp [stepBody, stepBodyPost, hn]
  · simp [stepBody, stepBodyPost, hl]
  · simp only [stepBody, stepBodyPost, hsp, hn, hr, if_true, Bool.and_true]
    split
    · rw [key2]; simp [List.filter_filter]
    · rfl

theorem update_rel (env : RunEnv) (hs : C14.Sane env) (hsp : env.sparse = true) (n : Int)
    (s t : RState) (h : Rel s t) : Rel (env.update n s) (updatePost env n t) := by
  unfold RunEnv.update updatePost
  apply step_rel env hs hsp
  exact ⟨h.parts, h.npid, by simp [h.log], h.records⟩

/-- any number of steps, from any pair of related states -/
theorem updates_post_rel (env : RunEnv) (hs : C14.Sane env) (hsp : env.sparse = true) (k : Nat) :
    ∀ (first : Int) (s t : RState), Rel s t → Rel (env.updates first k s) (updatesPost env first k t) := by
  induction k with
  | zero => intro _ s t h; exact h
  | succ k ih =>
    intro first s t h
    exact ih (first + 1) _ _ (update_rel env hs hsp first s t h)

theorem updatesPost_dense (env : RunEnv) (hd : env.sparse = false) (k : Nat) :
    ∀ (first : Int) (s : RState), updatesPost env first k s = env.updates first k s := by
  induction k with
  | zero => intro _ _; rfl
  | succ k ih =>
    intro first s
    simp only [updatesPost, RunEnv.updates, updatePost, RunEnv.update, stepBodyPost_dense env hd, ih]

/-- a cold run in the program's order writes the records of the model's loop, hands out the
    same pids and makes the same calls — in either layout -/
theorem coldRun_post (env : RunEnv) (hs : C14.Sane env) (nsteps : Nat) :
    (coldRunPost env nsteps).records = (env.coldRun nsteps).records ∧
    (coldRunPost env nsteps).npid = (env.coldRun nsteps).npid ∧
    (coldRunPost env nsteps).log = (env.coldRun nsteps).log := by
  unfold coldRunPost RunEnv.coldRun
  cases hsp : env.sparse
  · simp [updatesPost_dense env hsp]
  · have h := updates_post_rel env hs hsp nsteps 0 _ _ (Rel.refl RunEnv.empty)
    exact ⟨h.records, h.npid, h.log⟩

/-- the same for a warm-started run -/
theorem warmRun_post (env : RunEnv) (hs : C14.Sane env) (nsteps : Nat) (parts : List RP) (npid : Nat) :
    (warmRunPost env nsteps parts npid).records = (env.warmRun nsteps parts npid).records ∧
    (warmRunPost env nsteps parts npid).npid = (env.warmRun nsteps parts npid).npid ∧
    (warmRunPost env nsteps parts npid).log = (env.warmRun nsteps parts npid).log := by
  unfold warmRunPost RunEnv.warmRun
  cases hsp : env.sparse
  · simp [updatesPost_dense env hsp, stepBodyPost_dense env hsp]
  · have h := updates_post_rel env hs hsp (nsteps - 1) 1 _ _
      (step_rel env hs hsp 0 false _ _ (Rel.refl { parts := parts, npid := npid, log := [], records := [] }))
    exact ⟨h.records, h.npid, h.log⟩

/-- the record of step `n` of a cold run in the program's order is the per-particle specification -/
theorem coldRunPost_records_eq (env : RunEnv) (hs : C14.Sane env) (nsteps : Nat) :
    (coldRunPost env nsteps).records = (env.coldRun nsteps).records := (coldRun_post env hs nsteps).1

/-- and the states the two loops end in hold the same living particles (what the next record,
    the next warm start or a caller of `Model.update` gets to see) -/
theorem coldRun_post_living (env : RunEnv) (hs : C14.Sane env) (nsteps : Nat) :
    (coldRunPost env nsteps).parts.filter (·.alive) = (env.coldRun nsteps).parts.filter (·.alive) := by
  unfold coldRunPost RunEnv.coldRun
  cases hsp : env.sparse
  · rw [updatesPost_dense env hsp]
  · exact (updates_post_rel env hs hsp nsteps 0 _ _ (Rel.refl RunEnv.empty)).parts

/-- the program's order never carries a dead particle over a step boundary in the sparse layout
    unless the tracker or the IBM of that very step killed it: what enters `tracker.update` is alive -/
theorem post_forced_alive (env : RunEnv) (hs : C14.Sane env) (hsp : env.sparse = true) (n : Int)
    (s : RState) :
    ∀ p ∈ ((if env.sparse then (s.parts ++ assignPids s.npid (env.release n)).filter (·.alive)
            else s.parts ++ assignPids s.npid (env.release n)).map (env.force n)), p.alive = true := by
  intro p hp
  rw [hsp] at hp
  simp only [if_true, List.mem_map, List.mem_filter] at hp
  obtain ⟨q, ⟨_, hq⟩, rfl⟩ := hp
  rw [hs.force_alive]; exact hq

/-- the refinement theorem of C14 holds for the loop in the program's present order:
    every due record of a cold run is the per-particle specification, and nothing else is written -/
theorem post_refines_spec (env : RunEnv) (hs : C14.Sane env) (hsp : env.sparse = true) (N n : Nat)
    (hn : n < N) (hdue : env.due n = true) :
    ((n : Int), specRecord env n) ∈ (coldRunPost env N).records ∧
    ∀ parts, ((n : Int), parts) ∈ (coldRunPost env N).records → parts = specRecord env n := by
  rw [coldRunPost_records_eq env hs]
  exact C14.run_refines_spec env hs hsp N n hn hdue

/-- not vacuous and not trivial: a particle released dead is in the model's transient state of
    its release step and not in the program's, while the records agree -/
def demoEnv : RunEnv :=
  { release := fun n => if n = 0 then
      [{ pid := 0, x := 1, y := 1, z := 1, alive := false, active := true, vars := [], pvars := [] },
       { pid := 0, x := 2, y := 2, z := 1, alive := true, active := true, vars := [], pvars := [] }] else []
    force := fun _ p => p, move := fun _ p => { p with z := p.x }, ibm := fun _ p => p
    due := fun n => n % 2 == 1, sparse := true }

example : (demoEnv.coldRun 1).parts.length = 2 ∧ (coldRunPost demoEnv 1).parts.length = 1 ∧
    (coldRunPost demoEnv 2).records = (demoEnv.coldRun 2).records ∧
    ((demoEnv.coldRun 2).records.map (fun r => r.2.map (·.pid))) = [[1]] := by decide

end Ladim.RunOrder
