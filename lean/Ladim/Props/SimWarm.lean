import Ladim.Props.Simulation
import Ladim.Props.SimRestart
import Ladim.Props.C04Warm
import Ladim.Props.C08
import Ladim.Props.Whole
/-
C08 for the whole simulation: restart transparency of `Sim.run`.  A forward, cold, sparse run is
stopped at an output step `r`; `restartSim s r …` is the set-up of the continuation: start moved to
the restart time, the same stop, the same grid, the forcing frames addressed with step numbers lower
by `r`, the same release file, the scripted IBM's schedule counted from the restart, and as warm
state the record of step `r` with the pid counter restored.  Its run writes, at every later output
step, exactly the record the uninterrupted run writes.

The proof composes: `C08.restart_transparent` (the abstract loop: `warmRun (shiftEnv env r) …`),
`SimRestart.restart_same_velocity_field / restart_same_scalar_field` (the restarted time machine
hands out the same fields, C03), `C04Warm.warm_release_table` (the restarted releaser releases
nothing at its step 0 and the same rows afterwards, C04), `Whole.env_sane / env_forceIdem`.
-/

namespace Ladim.SimWarm
open Ladim

theorem stepBody_congr (e1 e2 : RunEnv) (n : Int) (wo : Bool) (st : RState)
    (hrel : e1.release n = e2.release n)
    (hforce : ∀ p, e1.force n p = e2.force n p)
    (hmove : ∀ p, e1.move n p = e2.move n p)
    (hibm : ∀ p, e1.ibm n p = e2.ibm n p)
    (hdue : e1.due n = e2.due n)
    (hsp : e1.sparse = e2.sparse) :
    e1.stepBody n wo st = e2.stepBody n wo st := by
  have hf : e1.force n = e2.force n := funext hforce
  have hm : e1.move n = e2.move n := funext hmove
  have hi : e1.ibm n = e2.ibm n := funext hibm
  unfold RunEnv.stepBody
  simp only [hrel, hf, hm, hi, hdue, hsp]

theorem updates_congr (e1 e2 : RunEnv) (hsp : e1.sparse = e2.sparse) :
    ∀ (k : Nat) (first : Int) (st : RState),
    (∀ j : Nat, j < k → e1.release (first + j) = e2.release (first + j) ∧
      (∀ p, e1.force (first + j) p = e2.force (first + j) p) ∧
      (∀ p, e1.move (first + j) p = e2.move (first + j) p) ∧
      (∀ p, e1.ibm (first + j) p = e2.ibm (first + j) p) ∧
      e1.due (first + j) = e2.due (first + j)) →
    e1.updates first k st = e2.updates first k st
  | 0, _, _, _ => rfl
  | k + 1, first, st, h => by
    simp only [RunEnv.updates]
    obtain ⟨h1, h2, h3, h4, h5⟩ := h 0 (by omega)
    simp only [Nat.cast_zero, Int.add_zero] at h1 h2 h3 h4 h5
    have hu : e1.update first st = e2.update first st :=
      stepBody_congr e1 e2 first true _ h1 h2 h3 h4 h5 hsp
    rw [hu]
    apply updates_congr e1 e2 hsp k (first + 1)
    intro j hj
    have := h (j + 1) (by omega)
    have e : first + ((j + 1 : Nat) : Int) = first + 1 + (j : Int) := by push_cast; omega
    rw [e] at this
    exact this

/-- two environments that agree on the steps `0 … n−1` have the same warm run of `n` steps -/
theorem warmRun_congr (e1 e2 : RunEnv) (n : Nat) (hn : 0 < n) (parts : List RP) (npid : Nat)
    (hrel : ∀ k : Nat, k < n → e1.release (k : Int) = e2.release (k : Int))
    (hforce : ∀ k : Nat, k < n → ∀ p, e1.force (k : Int) p = e2.force (k : Int) p)
    (hmove : ∀ k : Nat, k < n → ∀ p, e1.move (k : Int) p = e2.move (k : Int) p)
    (hibm : ∀ k : Nat, k < n → ∀ p, e1.ibm (k : Int) p = e2.ibm (k : Int) p)
    (hdue : ∀ k : Nat, k < n → e1.due (k : Int) = e2.due (k : Int))
    (hsp : e1.sparse = e2.sparse) :
    e1.warmRun n parts npid = e2.warmRun n parts npid := by
  unfold RunEnv.warmRun
  simp only
  rw [stepBody_congr e1 e2 0 false _ (hrel 0 hn) (hforce 0 hn) (hmove 0 hn) (hibm 0 hn) (hdue 0 hn) hsp]
  apply updates_congr e1 e2 hsp
  intro j hj
  have e : (1 : Int) + (j : Int) = ((j + 1 : Nat) : Int) := by push_cast; omega
  rw [e]
  exact ⟨hrel _ (by omega), hforce _ (by omega), hmove _ (by omega), hibm _ (by omega), hdue _ (by omega)⟩

theorem advect_congr (sc : Scheme) (g : GridM) (v1 v2 : VelOracle)
    (h : ∀ frac : Rat, (frac = 0 ∨ frac = 1/2 ∨ frac = 1) → ∀ x y, v1 frac x y = v2 frac x y)
    (x y a b : Rat) : advect sc g v1 x y a b = advect sc g v2 x y a b := by
  have h0 : ∀ x y, v1 0 x y = v2 0 x y := h 0 (Or.inl rfl)
  have hh : ∀ x y, v1 (1/2) x y = v2 (1/2) x y := h (1/2) (Or.inr (Or.inl rfl))
  have h1 : ∀ x y, v1 1 x y = v2 1 x y := h 1 (Or.inr (Or.inr rfl))
  cases sc <;> simp only [advect, h0, hh, h1]

/-- the tracker asks the velocity oracle for the fractions `0`, `1/2` and `1` only -/
theorem trackerStep_congr (cfg : TrkCfg) (g : GridM) (v1 v2 : VelOracle)
    (h : ∀ frac : Rat, (frac = 0 ∨ frac = 1/2 ∨ frac = 1) → ∀ x y, v1 frac x y = v2 frac x y)
    (du dv wd wa : Rat) (p : Part) :
    trackerStep cfg g v1 du dv wd wa p = trackerStep cfg g v2 du dv wd wa p := by
  unfold trackerStep moveH
  simp only [advect_congr cfg.scheme g v1 v2 h]


/-- `forcing.update` of a `toRoms` set-up reads the scalar fields of its step only -/
theorem toRoms_force (fs1 fs2 : ForcingSetup) (harr : fs1.arrS = fs2.arrS) (n1 n2 : Int)
    (h : ∀ arr, (scalarSeq fs1.frames arr fs1.nrun)[n1.toNat]?.getD [] =
      (scalarSeq fs2.frames arr fs2.nrun)[n2.toNat]?.getD [])
    (g : GridM) (sg1 sg2 : Rat) (c1 c2 : TrkCfg) (rl1 rl2 : Int → List RP) (ag1 ag2 : Bool)
    (kl1 kl2 : Int → List Nat) (pr1 pr2 : Int) (sp1 sp2 : Bool) (rnd1 rnd2 : Rat → Rat) (p : RP) :
    (fs1.toRoms g sg1 c1 rl1 ag1 kl1 pr1 sp1 rnd1).force n1 p =
      (fs2.toRoms g sg2 c2 rl2 ag2 kl2 pr2 sp2 rnd2).force n2 p := by
  unfold RomsSetup.force ForcingSetup.toRoms
  simp only [List.foldl_map, harr]
  congr 1
  funext q ⟨nm, arr⟩
  simp only [h arr]

/-- `tracker.update` of a `toRoms` set-up reads the fields used at the fractions `0`, `1/2`, `1` -/
theorem toRoms_move (fs1 fs2 : ForcingSetup) (n1 n2 : Int)
    (hU : ∀ frac : Rat, (frac = 0 ∨ frac = 1/2 ∨ frac = 1) →
      SimRestart.fieldUsed ((fieldSeq fs1.frames fs1.arrU fs1.nrun)[n1.toNat]?.getD ([], [])) frac =
      SimRestart.fieldUsed ((fieldSeq fs2.frames fs2.arrU fs2.nrun)[n2.toNat]?.getD ([], [])) frac)
    (hV : ∀ frac : Rat, (frac = 0 ∨ frac = 1/2 ∨ frac = 1) →
      SimRestart.fieldUsed ((fieldSeq fs1.frames fs1.arrV fs1.nrun)[n1.toNat]?.getD ([], [])) frac =
      SimRestart.fieldUsed ((fieldSeq fs2.frames fs2.arrV fs2.nrun)[n2.toNat]?.getD ([], [])) frac)
    (g : GridM) (sg : Rat) (c : TrkCfg) (rl1 rl2 : Int → List RP) (ag1 ag2 : Bool)
    (kl1 kl2 : Int → List Nat) (pr1 pr2 : Int) (sp1 sp2 : Bool) (rnd : Rat → Rat) (p : RP) :
    (fs1.toRoms g sg c rl1 ag1 kl1 pr1 sp1 rnd).move n1 p =
      (fs2.toRoms g sg c rl2 ag2 kl2 pr2 sp2 rnd).move n2 p := by
  have ho : ∀ frac : Rat, (frac = 0 ∨ frac = 1/2 ∨ frac = 1) → ∀ x y,
      (fs1.toRoms g sg c rl1 ag1 kl1 pr1 sp1 rnd).oracle n1 p.x p.y p.z frac x y =
      (fs2.toRoms g sg c rl2 ag2 kl2 pr2 sp2 rnd).oracle n2 p.x p.y p.z frac x y := by
    intro frac hf x y
    show sampleVel g (SimRestart.fieldUsed ((fieldSeq fs1.frames fs1.arrU fs1.nrun)[n1.toNat]?.getD ([], [])) frac)
        (SimRestart.fieldUsed ((fieldSeq fs1.frames fs1.arrV fs1.nrun)[n1.toNat]?.getD ([], [])) frac) sg p.x p.y p.z x y =
      sampleVel g (SimRestart.fieldUsed ((fieldSeq fs2.frames fs2.arrU fs2.nrun)[n2.toNat]?.getD ([], [])) frac)
        (SimRestart.fieldUsed ((fieldSeq fs2.frames fs2.arrV fs2.nrun)[n2.toNat]?.getD ([], [])) frac) sg p.x p.y p.z x y
    rw [hU frac hf, hV frac hf]
  unfold RomsSetup.move
  simp only []
  rw [trackerStep_congr _ _ _ _ ho]
  rfl


theorem clock_restart (st e dt : Int) (ref : Option Int) (tk : TK)
    (h : TK.init (some st) (some e) dt ref false = .ok tk) (hdt : 0 < dt) (r : Nat)
    (hr : r < tk.nsteps.toNat) :
    ∃ tk', TK.init (some (st + r * dt)) (some e) dt ref false = .ok tk' ∧
      tk'.nsteps.toNat = tk.nsteps.toNat - r := by
  have hst := C13.init_started h
  obtain ⟨h0, h1, h2⟩ := C13.nsteps_floor h hdt
  have hside : 0 ≤ e - st := by
    have := hst.hside
    simp only [false_eq_decide_iff, not_lt] at this
    exact this
  rw [abs_of_nonneg hside] at h1 h2
  have hrn : (r : Int) < tk.nsteps := by omega
  have hle : (r : Int) * dt ≤ tk.nsteps * dt := Int.mul_le_mul_of_nonneg_right (le_of_lt hrn) (le_of_lt hdt)
  have hside' : 0 ≤ e - (st + r * dt) := by omega
  obtain ⟨tk', h'⟩ := (C13.init_accepts_iff (some (st + r * dt)) (some e) dt ref false).2
    ⟨_, _, rfl, rfl, ne_of_gt hdt, by simp; omega⟩
  refine ⟨tk', h', ?_⟩
  have hst' := C13.init_started h'
  rw [hst'.hnsteps, hst.hnsteps, Int.fdiv_eq_ediv_of_nonneg _ (le_of_lt hdt),
    Int.fdiv_eq_ediv_of_nonneg _ (le_of_lt hdt), Int.natCast_natAbs, Int.natCast_natAbs,
    abs_of_nonneg hside, abs_of_nonneg hside']
  have e1 : e - (st + r * dt) = (e - st) + (-(r : Int)) * dt := by
    rw [Int.neg_mul]; omega
  rw [e1, Int.add_mul_ediv_right _ _ (ne_of_gt hdt)]
  omega


/-- an output step as restart step: the output schedule counted from it is the same -/
theorem fmod_shift (k r p : Int) (h : Int.fmod r p = 0) : Int.fmod (k + r) p = Int.fmod k p := by
  obtain ⟨c, rfl⟩ := Int.dvd_of_fmod_eq_zero h
  exact Int.add_mul_fmod_self_left k p c

/-- the set-up of the continuation of a forward run stopped at step `r` -/
def restartSim (s : Sim) (r : Nat) (parts : List RP) (npid : Nat) : Sim :=
  { s with start := s.start + r * s.dt,
           frames := SimRestart.shiftFrames r s.frames,
           kills := fun n => s.kills (n + r),
           warm := some { parts := parts, npid := npid, pvtable := [] } }

theorem run_warm (s : Sim) (rnd : Rat → Rat) (tk : TK) (g : GridM) (rel : Rel) (w : WarmState)
    (htk : TK.init (some s.start) (some s.stop) s.dt s.ref s.rev = .ok tk)
    (hg : mkGrid s.file s.sub = some g) (hrel : Rel.init s.relCfg s.rows = .ok rel)
    (hw : s.warm = some w) :
    ∃ b, s.run rnd = .ok b ∧ b.nsteps = tk.nsteps.toNat ∧
      b.final = (Simulation.envOf s g rel tk.nsteps.toNat rnd).warmRun tk.nsteps.toNat w.parts w.npid := by
  unfold Sim.run
  simp only [htk, hg, hrel, hw]
  exact ⟨_, rfl, rfl, rfl⟩

theorem relCfg_restart (s : Sim) (r : Nat) (parts : List RP) (npid : Nat) (hrev : s.rev = false) :
    (restartSim s r parts npid).relCfg = C04Warm.restartCfg s.relCfg r := by
  unfold Sim.relCfg restartSim C04Warm.restartCfg
  simp [hrev]

theorem shift_file (r : Int) (frames : List Frame) :
    (SimRestart.shiftFrames r frames).map (·.file) = frames.map (·.file) := by
  unfold SimRestart.shiftFrames
  rw [List.map_map]
  rfl

theorem shift_idx (r : Int) (frames : List Frame) :
    (SimRestart.shiftFrames r frames).map (·.idx) = frames.map (·.idx) := by
  unfold SimRestart.shiftFrames
  rw [List.map_map]
  rfl

/-- the forcing of the continuation: the same (tabulated, windowed) arrays, the frames renumbered -/
theorem forcingSetup_restart (s : Sim) (r : Nat) (parts : List RP) (npid : Nat) (g : GridM) (n m : Nat) :
    (restartSim s r parts npid).forcingSetup g n =
      { frames := SimRestart.shiftFrames r s.frames, arrU := (s.forcingSetup g m).arrU,
        arrV := (s.forcingSetup g m).arrV, arrS := (s.forcingSetup g m).arrS, nrun := n } := by
  unfold Sim.forcingSetup restartSim
  simp only [shift_file, shift_idx]

section agree
variable (s : Sim) (rnd : Rat → Rat) (g : GridM) (rel rel' : Rel) (N n' r : Nat) (parts : List RP) (npid : Nat)

theorem release_agree (hn : n' + r = N)
    (htab : ∀ (n k : Nat), k < n → C04Warm.relAt (rel'.run 0 n) (k : Int) =
      if k = 0 then [] else C04Warm.relAt (rel.run 0 (n + r)) ((k + r : Nat) : Int))
    (k : Nat) (hk : k < n') :
    (Simulation.envOf (restartSim s r parts npid) g rel' n' rnd).release (k : Int) =
      (C08.shiftEnv (Simulation.envOf s g rel N rnd) r).release (k : Int) := by
  show (C04Warm.relAt (rel'.run 0 (n' + 1)) (k : Int)).map s.rowToRP =
    if (k : Int) = 0 then [] else (C04Warm.relAt (rel.run 0 (N + 1)) ((k : Int) + (r : Int))).map s.rowToRP
  rw [htab (n' + 1) k (by omega)]
  have e : n' + 1 + r = N + 1 := by omega
  rw [e]
  by_cases h0 : k = 0
  · subst h0; simp
  · have h0' : ¬ ((k : Int) = 0) := by omega
    rw [if_neg h0, if_neg h0']
    push_cast
    rfl

theorem force_agree (hn : n' + r = N) (hfs : C03.Sorted s.frames) (hfc : C03.Covers s.frames (N : Int))
    (hr : r < N) (k : Nat) (hk : k < n') (p : RP) :
    (Simulation.envOf (restartSim s r parts npid) g rel' n' rnd).force (k : Int) p =
      (C08.shiftEnv (Simulation.envOf s g rel N rnd) r).force (k : Int) p := by
  show (((restartSim s r parts npid).forcingSetup g (n' + 1)).toRoms ..).force (k : Int) p =
    ((s.forcingSetup g (N + 1)).toRoms ..).force ((k : Int) + (r : Int)) p
  rw [forcingSetup_restart s r parts npid g (n' + 1) (N + 1)]
  apply toRoms_force
  · rfl
  · intro arr
    have e : ((k : Int) + (r : Int)).toNat = r + k := by omega
    rw [e, Int.toNat_natCast]
    exact SimRestart.restart_same_scalar_field s.frames arr (N + 1) (n' + 1) N hfs hfc r k
      (by omega) (by omega) (by omega) (by omega)

theorem move_agree (hn : n' + r = N) (hfs : C03.Sorted s.frames) (hfc : C03.Covers s.frames (N : Int))
    (k : Nat) (hk : k < n') (p : RP) :
    (Simulation.envOf (restartSim s r parts npid) g rel' n' rnd).move (k : Int) p =
      (C08.shiftEnv (Simulation.envOf s g rel N rnd) r).move (k : Int) p := by
  show (((restartSim s r parts npid).forcingSetup g (n' + 1)).toRoms ..).move (k : Int) p =
    ((s.forcingSetup g (N + 1)).toRoms ..).move ((k : Int) + (r : Int)) p
  rw [forcingSetup_restart s r parts npid g (n' + 1) (N + 1)]
  have e : ((k : Int) + (r : Int)).toNat = r + k := by omega
  have hfr : ∀ frac : Rat, (frac = 0 ∨ frac = 1/2 ∨ frac = 1) → (frac = 0 ∨ (1/1000 ≤ frac ∧ frac ≤ 1)) := by
    rintro frac (rfl | rfl | rfl)
    · exact Or.inl rfl
    · exact Or.inr (by norm_num)
    · exact Or.inr (by norm_num)
  apply toRoms_move
  · intro frac hf
    rw [e, Int.toNat_natCast]
    exact SimRestart.restart_same_velocity_field s.frames _ (N + 1) (n' + 1) N hfs hfc r k
      (by omega) (by omega) (by omega) frac (hfr frac hf)
  · intro frac hf
    rw [e, Int.toNat_natCast]
    exact SimRestart.restart_same_velocity_field s.frames _ (N + 1) (n' + 1) N hfs hfc r k
      (by omega) (by omega) (by omega) frac (hfr frac hf)

theorem ibm_agree (k : Int) (p : RP) :
    (Simulation.envOf (restartSim s r parts npid) g rel' n' rnd).ibm k p =
      (C08.shiftEnv (Simulation.envOf s g rel N rnd) r).ibm k p := rfl

theorem due_agree (hdue : Int.fmod (r : Int) s.period = 0) (k : Int) :
    (Simulation.envOf (restartSim s r parts npid) g rel' n' rnd).due k =
      (C08.shiftEnv (Simulation.envOf s g rel N rnd) r).due k := by
  show (Int.fmod k s.period == 0) = (Int.fmod (k + (r : Int)) s.period == 0)
  rw [fmod_shift k r s.period hdue]

end agree


/-- **restart_sim** (forward run, cold start, sparse layout, discrete release table sorted with
    times on the model time grid, forcing frames sorted and covering the run): the continuation
    from the record of an output step `r` is accepted, has `nsteps − r` steps, and its records are
    the records of the uninterrupted run after step `r`, with the steps counted from the restart -/
theorem restart_sim (s : Sim) (rnd : Rat → Rat) (a : SimResult) (tk : TK) (g : GridM) (rel : Rel)
    (hp : Simulation.Parts s rnd a tk g rel)
    (hrev : s.rev = false) (hw : s.warm = none) (hsp : s.sparse = true) (hdt : 0 < s.dt)
    (hc : s.continuous = false) (hsort : C04.SimSorted s.rev s.rows) (hgrid : C04.OnGrid s.relCfg s.rows)
    (hfs : C03.Sorted s.frames) (hfc : C03.Covers s.frames (a.nsteps : Int))
    (r : Nat) (hr : r < a.nsteps) (hdue : Int.fmod (r : Int) s.period = 0) :
    let env := Simulation.envOf s g rel a.nsteps rnd
    ∃ b, (restartSim s r (RunEnv.specRecord env r) (C08.npidAt env r)).run rnd = .ok b ∧
      b.nsteps = a.nsteps - r ∧
      b.final.records =
        (a.final.records.filter (fun x => decide ((r : Int) < x.1))).map (fun x => (x.1 - (r : Int), x.2)) := by
  intro env
  -- the uninterrupted run
  have hfin : a.final = env.coldRun a.nsteps := by
    have := hp.hfinal
    rw [hw] at this
    exact this
  -- the clock of the continuation
  have htk := hp.htk
  rw [hrev] at htk
  obtain ⟨tk', htk', hns'⟩ := clock_restart s.start s.stop s.dt s.ref tk htk hdt r (by rw [← hp.hnsteps]; exact hr)
  rw [← hp.hnsteps] at hns'
  -- its releaser
  obtain ⟨rel', hrel', htab⟩ := C04Warm.warm_release_table s.relCfg s.rows hdt hc
    (Simulation.relCfg_warm s hw) hsort hgrid rel hp.hrel r
  rw [← relCfg_restart s r (RunEnv.specRecord env r) (C08.npidAt env r) hrev] at hrel'
  -- the run of the continuation
  obtain ⟨b, hb, hbn, hbf⟩ := run_warm (restartSim s r (RunEnv.specRecord env r) (C08.npidAt env r)) rnd tk' g rel'
    { parts := RunEnv.specRecord env r, npid := C08.npidAt env r, pvtable := [] }
    (by rw [← hrev] at htk'; exact htk') hp.hgrid hrel' rfl
  rw [hns'] at hbn hbf
  refine ⟨b, hb, hbn, ?_⟩
  have hn : a.nsteps - r + r = a.nsteps := by omega
  rw [hbf, hfin]
  show ((Simulation.envOf (restartSim s r (RunEnv.specRecord env r) (C08.npidAt env r)) g rel' (a.nsteps - r) rnd).warmRun
    (a.nsteps - r) (RunEnv.specRecord env r) (C08.npidAt env r)).records = _
  rw [warmRun_congr _ (C08.shiftEnv env r) (a.nsteps - r) (by omega) _ _
    (release_agree s rnd g rel rel' a.nsteps (a.nsteps - r) r _ _ hn htab)
    (force_agree s rnd g rel rel' a.nsteps (a.nsteps - r) r _ _ hn hfs hfc hr)
    (move_agree s rnd g rel rel' a.nsteps (a.nsteps - r) r _ _ hn hfs hfc)
    (fun k _ p => ibm_agree s rnd g rel rel' a.nsteps (a.nsteps - r) r _ _ (k : Int) p)
    (fun k _ => due_agree s rnd g rel rel' a.nsteps (a.nsteps - r) r _ _ hdue (k : Int))
    rfl]
  exact C08.restart_transparent env (Whole.env_sane _) (Whole.env_forceIdem _) hsp a.nsteps r hr
    (by show (Int.fmod (r : Int) s.period == 0) = true; rw [hdue]; rfl)

end Ladim.SimWarm
