import Ladim.Props.Simulation
import Ladim.Props.C10
/-
C10 for the whole simulation: a time-reversed `Sim.run` from `S` back to `E` and the forward
`Sim.run` over the mirrored time axis (`stop ↦ 2S − stop`, release times `t ↦ 2S − t`) in the
velocity field of opposite sign go through the same states — same refusals, same number of
steps, same particles at the same positions in every record, same call log.  The forcing
frames are addressed by step number in `Sim` (the harness and `forcing_steps` compute them with
`time2step`, for which `C10.time2step_mirror` says the reversed and the mirrored run agree), so
the frame table is shared.

`Sim.mirror` negates the U and V arrays of every frame.  Vertical advection uses the scalar
forcing field `w`, which the particle carries as a variable; in the mirrored run that field is
negated too and the particle variable `w` has the opposite sign, so the general statement is
"equal up to the sign of the variable `w`"; it is stated here for runs without vertical
advection, where the tracker does not read `w` and the states are equal outright (a scalar
field named `w`, if any, is not touched by `mirror` and is carried along unchanged).

One corner is excluded (`hedge`): for `stop = start` the reversed clock is refused while the
forward clock of the mirrored run is accepted with zero steps; the mirrored run is then refused
by the releaser (empty window, the same status 3) unless the grid is illegal, in which case it
stops with status 1 (`mirror_edge_counterexample`).
-/

namespace Ladim.SimMirror
open Ladim

/-- the forward set-up over the mirrored time axis in the velocity field of opposite sign -/
def mirror (s : Sim) : Sim :=
  { s with rev := false, stop := 2 * s.start - s.stop,
           rawU := fun f i => C10.negF (s.rawU f i),
           rawV := fun f i => C10.negF (s.rawV f i),
           rows := s.rows.map (C10.mirrorRow s.start) }

/-! ### forcing -/

theorem negF_nil : C10.negF [] = [] := rfl

theorem nodeVal_neg (arr : Nat → Nat → Field3) (k j i : Nat) :
    nodeVal (fun f ix => C10.negF (arr f ix)) k j i = C10.negVal (nodeVal arr k j i) := by
  funext f ix
  simp only [nodeVal, C10.negVal, C10.negF, List.getElem?_map]
  cases (arr f ix)[k]? with
  | none => simp
  | some P =>
    simp only [Option.map_some, Option.bind_some, List.getElem?_map]
    cases P[j]? with
    | none => simp
    | some r =>
      simp only [Option.map_some, Option.bind_some, List.getElem?_map]
      cases r[i]? <;> simp

theorem init_noScalar (frames : List Frame) (valU valS valS' : Nat → Nat → Rat) :
    FM.init frames valU valS false = FM.init frames valU valS' false := by
  simp [FM.init]

theorem update_noScalar (m : FM) (valU valS valS' : Nat → Nat → Rat) (step : Int) :
    m.update valU valS false step = m.update valU valS' false step := by
  simp [FM.update]

theorem scan_noScalar (valU valS valS' : Nat → Nat → Rat) :
    ∀ (fuel s : Nat) (m : FM), m.scan valU valS false s fuel = m.scan valU valS' false s fuel := by
  intro fuel
  induction fuel with
  | zero => intro s m; rfl
  | succ fuel ih =>
    intro s m
    simp only [FM.scan, update_noScalar m valU valS valS', ih]

theorem scan_neg (valU valS : Nat → Nat → Rat) (hasS : Bool) :
    ∀ (fuel s : Nat) (m : FM), (C10.FM.neg m).scan (C10.negVal valU) valS hasS s fuel =
      (m.scan valU valS hasS s fuel).map C10.FM.neg := by
  intro fuel
  induction fuel with
  | zero => intro s m; rfl
  | succ fuel ih =>
    intro s m
    simp only [FM.scan, C10.fm_neg_update]
    cases m.update valU valS hasS (s : Int) with
    | none => rfl
    | some m' => simp only [Option.map_some, List.map_cons, ih]

theorem nodeStates_neg (frames : List Frame) (val : Nat → Nat → Rat) (n : Nat) :
    nodeStates frames (C10.negVal val) false n = (nodeStates frames val false n).map C10.FM.neg := by
  unfold nodeStates
  rw [init_noScalar frames (C10.negVal val) (C10.negVal val) val, C10.fm_neg_init]
  cases FM.init frames val val false with
  | none => rfl
  | some m0 =>
    simp only [Option.map_some]
    rw [scan_noScalar (C10.negVal val) (C10.negVal val) val, scan_neg]

theorem mapNodes_negF {α : Type} (shape : Field3) (f : Nat → Nat → Nat → α) :
    mapNodes (C10.negF shape) f = mapNodes shape f := by
  simp [mapNodes, C10.negF, List.zipIdx_map, List.map_map, Function.comp_def]

theorem shapeOf_neg (frames : List Frame) (arr : Nat → Nat → Field3) :
    shapeOf frames (fun f i => C10.negF (arr f i)) = C10.negF (shapeOf frames arr) := by
  cases frames <;> rfl

theorem negF_mapNodes (shape : Field3) (f : Nat → Nat → Nat → Rat) :
    C10.negF (mapNodes shape f) = mapNodes shape (fun k j i => -(f k j i)) := by
  unfold C10.negF
  rw [WholeForcing.mapNodes_map]

/-- the time machine over negated arrays gives the negated running fields -/
theorem fieldSeq_neg (frames : List Frame) (arr : Nat → Nat → Field3) (n k : Nat) :
    ((fieldSeq frames (fun f i => C10.negF (arr f i)) n)[k]?.getD ([], [])) =
      (C10.negF ((fieldSeq frames arr n)[k]?.getD ([], [])).1, C10.negF ((fieldSeq frames arr n)[k]?.getD ([], [])).2) := by
  by_cases hk : k < n
  · rw [WholeForcing.fieldSeq_get _ _ _ _ hk, WholeForcing.fieldSeq_get _ _ _ _ hk]
    simp only [shapeOf_neg, mapNodes_negF, negF_mapNodes, nodeVal_neg, nodeStates_neg, List.getElem?_map]
    congr 2 <;> funext a b c <;>
      cases (nodeStates frames (nodeVal arr a b c) false n)[k]? <;> simp [C10.FM.neg]
  · have h1 : ∀ a, (fieldSeq frames a n).length = n := by intro a; simp [fieldSeq]
    rw [List.getElem?_eq_none (by rw [h1]; omega), List.getElem?_eq_none (by rw [h1]; omega)]
    rfl

/-! ### windowing -/

theorem slice_map {α β} (f : α → β) (l : List α) (a b : Int) : slice (l.map f) a b = (slice l a b).map f := by
  simp [slice, List.map_drop, List.map_take]

theorem slice2_neg (P : Field2) (j0 j1 i0 i1 : Int) :
    slice2 (P.map (fun r => r.map (fun x => -x))) j0 j1 i0 i1 =
      (slice2 P j0 j1 i0 i1).map (fun r => r.map (fun x => -x)) := by
  simp [slice2, slice_map, List.map_map, Function.comp_def]

theorem readVel_neg (raw : Field3) (mask : Field2) :
    readVel (C10.negF raw) none mask = C10.negF (readVel raw none mask) := by
  simp only [readVel, C10.negF, List.map_map]
  apply List.map_congr_left
  intro P _
  simp only [Function.comp, List.zip_map_left, List.map_map]
  apply List.map_congr_left
  intro ⟨r, mr⟩ _
  simp only [Function.comp, Prod.map, id, List.zip_map_left, List.map_map]
  apply List.map_congr_left
  intro ⟨x, m⟩ _
  simp only [Function.comp, Prod.map, id, neg_mul]

/-- windowing commutes with negation -/
theorem windowU_neg (g : GridM) (raw : Field3) : windowU g (C10.negF raw) none = C10.negF (windowU g raw none) := by
  unfold windowU
  rw [← readVel_neg]
  congr 1
  simp only [C10.negF, List.map_map, Function.comp_def, slice2_neg]

theorem windowV_neg (g : GridM) (raw : Field3) : windowV g (C10.negF raw) none = C10.negF (windowV g raw none) := by
  unfold windowV
  rw [← readVel_neg]
  congr 1
  simp only [C10.negF, List.map_map, Function.comp_def, slice2_neg]

theorem tabulate_neg (nf ni : Nat) (fn : Nat → Nat → Field3) :
    tabulate nf ni (fun f i => C10.negF (fn f i)) = fun f i => C10.negF (tabulate nf ni fn f i) := by
  funext f i
  simp only [tabulate, List.getElem?_toArray, List.getElem?_map]
  by_cases hf : f < nf
  · by_cases hi : i < ni
    · simp [hf, hi]
    · simp [hf, hi, C10.negF]
  · simp [hf, C10.negF]

theorem addScaled_neg (u dU : Field3) (c : Rat) :
    RomsSetup.addScaled (C10.negF u) (C10.negF dU) c = C10.negF (RomsSetup.addScaled u dU c) := by
  simp only [RomsSetup.addScaled, C10.negF, List.zip_map, List.map_map]
  apply List.map_congr_left
  intro ⟨P, Q⟩ _
  simp only [Function.comp, Prod.map, List.zip_map, List.map_map]
  apply List.map_congr_left
  intro ⟨r, s⟩ _
  simp only [Function.comp, Prod.map, List.zip_map, List.map_map]
  apply List.map_congr_left
  intro ⟨a, b⟩ _
  simp only [Function.comp, Prod.map]
  ring

/-! ### the loop environment -/

theorem oracle_eq (s : RomsSetup) (n : Int) (x0 y0 z0 frac x y : Rat) :
    s.oracle n x0 y0 z0 frac x y =
      sampleVel s.g
        (if frac < 1/1000 then (s.fieldU n.toNat).1
          else RomsSetup.addScaled (s.fieldU n.toNat).1 (s.fieldU n.toNat).2 frac)
        (if frac < 1/1000 then (s.fieldV n.toNat).1
          else RomsSetup.addScaled (s.fieldV n.toNat).1 (s.fieldV n.toNat).2 frac)
        s.sign x0 y0 z0 x y := rfl

/-- a reversed set-up and a forward set-up over the negated fields have the same oracle -/
theorem oracle_neg (a b : RomsSetup) (hg : b.g = a.g) (hs : a.sign = -1) (hs' : b.sign = 1)
    (hU : ∀ k, b.fieldU k = (C10.negF (a.fieldU k).1, C10.negF (a.fieldU k).2))
    (hV : ∀ k, b.fieldV k = (C10.negF (a.fieldV k).1, C10.negF (a.fieldV k).2)) :
    b.oracle = a.oracle := by
  funext n x0 y0 z0 frac x y
  rw [oracle_eq, oracle_eq, hU, hV, hg, hs, hs', C10.sampleVel_neg]
  split_ifs
  · rfl
  · rw [addScaled_neg, addScaled_neg]

theorem trackerStep_noVert (cfg : TrkCfg) (hva : cfg.vertAdv = false) (hvd : cfg.vertDiff = false) (g : GridM)
    (vel : VelOracle) (du dv wdiff wadv wadv' : Rat) (p : Part) :
    trackerStep cfg g vel du dv wdiff wadv p = trackerStep cfg g vel du dv wdiff wadv' p := by
  simp [trackerStep, moveV, hva, hvd]

/-- two set-ups that differ only in the sign (with the same oracle) give the same loop
    environment when nothing moves vertically -/
theorem env_eq (a b : RomsSetup) (hg : b.g = a.g) (hsc : b.scalars = a.scalars) (hcfg : b.cfg = a.cfg)
    (hva : a.cfg.vertAdv = false) (hvd : a.cfg.vertDiff = false) (hor : b.oracle = a.oracle)
    (hrel : b.releaseAt = a.releaseAt) (hage : b.ageing = a.ageing) (hk : b.kills = a.kills)
    (hp : b.period = a.period) (hsp : b.sparse = a.sparse) (hrnd : b.rnd = a.rnd) : b.env = a.env := by
  have hforce : b.force = a.force := by
    funext n p
    simp only [RomsSetup.force, hg, hsc]
  have hmove : b.move = a.move := by
    funext n p
    simp only [RomsSetup.move, hg, hcfg, hor, hrnd]
    rw [trackerStep_noVert a.cfg hva hvd a.g _ 0 0 0 (b.sign * _) (a.sign * RomsSetup.valRat (RomsSetup.lookupVar p.vars "w"))]
  have hibm : b.ibm = a.ibm := by
    funext n p
    simp only [RomsSetup.ibm, hage, hk]
  simp only [RomsSetup.env, hforce, hmove, hibm, hrel, hp, hsp]

/-- the velocity oracle of the mirrored forward run is that of the reversed run -/
theorem oracle_mirror (s : Sim) (hrev : s.rev = true) (g : GridM) (nrun : Nat)
    (tab tab' : List (Int × List RRow)) (rnd : Rat → Rat) :
    ((mirror s).setup g nrun tab' rnd).oracle = (s.setup g nrun tab rnd).oracle := by
  apply oracle_neg
  · rfl
  · show (if s.rev then (-1 : Rat) else 1) = -1
    rw [hrev]; rfl
  · rfl
  · intro k
    show (fieldSeq s.frames (tabulate _ _ (fun fi ix => windowU g (C10.negF (s.rawU fi ix)) none)) nrun)[k]?.getD ([], []) = _
    simp only [windowU_neg]
    rw [tabulate_neg, fieldSeq_neg]
    rfl
  · intro k
    show (fieldSeq s.frames (tabulate _ _ (fun fi ix => windowV g (C10.negF (s.rawV fi ix)) none)) nrun)[k]?.getD ([], []) = _
    simp only [windowV_neg]
    rw [tabulate_neg, fieldSeq_neg]
    rfl

/-! ### release -/

theorem expand_mirror (S : Int) (g : List RRow) :
    Rel.expand (g.map (C10.mirrorRow S)) = (Rel.expand g).map (C10.mirrorRow S) := by
  induction g with
  | nil => rfl
  | cons r g ih =>
    simp only [Rel.expand, List.map_cons, List.flatMap_cons, List.map_append, List.map_replicate] at ih ⊢
    rw [ih]
    rfl

theorem update_map (S : Int) (r r' : Rel) (first : Int) (hs : r'.steps = r.steps)
    (hg : r'.groups = r.groups.map (fun g => g.map (C10.mirrorRow S))) (hi : r'.index = r.index) :
    (r'.update first).2 = ((r.update first).2).map (C10.mirrorRow S) ∧
    (r'.update first).1.steps = (r.update first).1.steps ∧
    (r'.update first).1.groups = (r.update first).1.groups.map (fun g => g.map (C10.mirrorRow S)) ∧
    (r'.update first).1.index = (r.update first).1.index := by
  unfold Rel.update
  rw [hs, hi, hg, List.getElem?_map]
  by_cases hc : r.steps.contains first = true
  · simp only [hc, if_true]
    cases r.groups[r.index]? with
    | none => exact ⟨rfl, hs, hg, hi⟩
    | some grp => exact ⟨expand_mirror S grp, rfl, rfl, rfl⟩
  · simp only [hc]
    exact ⟨rfl, hs, hg, hi⟩

theorem run_succ (r : Rel) (first : Int) (n : Nat) :
    r.run first (n + 1) = (first, (r.update first).2) :: (r.update first).1.run (first + 1) n := rfl

/-- releasers with the same steps and mirrored groups release the mirrored rows at the same steps -/
theorem run_map (S : Int) : ∀ (n : Nat) (r r' : Rel) (first : Int), r'.steps = r.steps →
    r'.groups = r.groups.map (fun g => g.map (C10.mirrorRow S)) → r'.index = r.index →
    r'.run first n = (r.run first n).map (fun (k, rows) => (k, rows.map (C10.mirrorRow S))) := by
  intro n
  induction n with
  | zero => intro r r' first _ _ _; rfl
  | succ n ih =>
    intro r r' first hs hg hi
    obtain ⟨h1, h2, h3, h4⟩ := update_map S r r' first hs hg hi
    rw [run_succ, run_succ, List.map_cons, ih _ _ (first + 1) h2 h3 h4, h1]

theorem init_index (c : RelCfg) (rows : List RRow) (r : Rel) (h : Rel.init c rows = .ok r) : r.index = 0 := by
  unfold Rel.init at h
  simp only at h
  split_ifs at h <;> cases h <;> rfl

theorem relCfg_mirror (s : Sim) : (mirror s).relCfg = C10.mirrorCfg s.relCfg := rfl

/-- the two releasers refuse alike or accept alike (cold or warm start) -/
theorem rel_mirror (s : Sim) (hrev : s.rev = true) (hc : s.continuous = false)
    (hrt : s.pvNames.contains "release_time" = false) :
    match Rel.init s.relCfg s.rows, Rel.init (mirror s).relCfg (mirror s).rows with
    | .ok r, .ok r' => r'.steps = r.steps ∧ r'.total = r.total ∧
        r'.groups = r.groups.map (fun g => g.map (C10.mirrorRow s.start))
    | .error e, .error e' => e = e'
    | _, _ => False :=
  C10.release_mirror s.relCfg hrev hc hrt s.rows

/-- the release table of the mirrored run is that of the reversed run with mirrored times -/
theorem relTable_mirror (s : Sim) (hrev : s.rev = true) (hc : s.continuous = false)
    (hrt : s.pvNames.contains "release_time" = false) (rel rel' : Rel)
    (h : Rel.init s.relCfg s.rows = .ok rel) (h' : Rel.init (mirror s).relCfg (mirror s).rows = .ok rel') (n : Nat) :
    rel'.run 0 n = (rel.run 0 n).map (fun (k, rows) => (k, rows.map (C10.mirrorRow s.start))) := by
  have hm := rel_mirror s hrev hc hrt
  rw [h, h'] at hm
  exact run_map s.start n rel rel' 0 hm.1 hm.2.2 (by rw [init_index _ _ _ h, init_index _ _ _ h'])

theorem lookup_map {β γ : Type} (f : β → γ) (l : List (Int × β)) (k : Int) :
    (l.map (fun (p : Int × β) => (p.1, f p.2))).lookup k = (l.lookup k).map f := by
  induction l with
  | nil => rfl
  | cons x t ih =>
    obtain ⟨k', v⟩ := x
    simp only [List.map_cons, List.lookup_cons]
    cases k == k' <;> simp [ih]

theorem rowToRP_mirror (s : Sim) (r : RRow) : (mirror s).rowToRP (C10.mirrorRow s.start r) = s.rowToRP r := rfl

/-- the two runs are handed the same particles at every step -/
theorem releaseAt_mirror (s : Sim) (tab : List (Int × List RRow)) (n : Int) :
    (((tab.map (fun (k, rows) => (k, rows.map (C10.mirrorRow s.start)))).lookup n).getD []).map (mirror s).rowToRP =
      ((tab.lookup n).getD []).map s.rowToRP := by
  rw [lookup_map (fun rows => rows.map (C10.mirrorRow s.start)) tab n]
  cases tab.lookup n with
  | none => rfl
  | some rows =>
    simp only [Option.map_some, Option.getD_some, List.map_map]
    apply List.map_congr_left
    intro r _
    exact rowToRP_mirror s r

/-- the loop environments of the two runs are equal -/
theorem envOf_mirror (s : Sim) (rnd : Rat → Rat) (hrev : s.rev = true) (hc : s.continuous = false)
    (hrt : s.pvNames.contains "release_time" = false) (hv : s.vertAdv = false)
    (g : GridM) (rel rel' : Rel) (h : Rel.init s.relCfg s.rows = .ok rel)
    (h' : Rel.init (mirror s).relCfg (mirror s).rows = .ok rel') (N : Nat) :
    Simulation.envOf (mirror s) g rel' N rnd = Simulation.envOf s g rel N rnd := by
  unfold Simulation.envOf
  apply env_eq
  · rfl
  · rfl
  · rfl
  · exact hv
  · rfl
  · exact oracle_mirror s hrev g (N + 1) _ _ rnd
  · funext n
    show (((rel'.run 0 (N + 1)).lookup n).getD []).map (mirror s).rowToRP =
      (((rel.run 0 (N + 1)).lookup n).getD []).map s.rowToRP
    rw [relTable_mirror s hrev hc hrt rel rel' h h' (N + 1)]
    exact releaseAt_mirror s _ n
  · rfl
  · rfl
  · rfl
  · rfl
  · rfl

/-! ### the clock -/

/-- the reversed clock from `S` back to `E` and the forward clock from `S` to `2S − E`: both
    accepted with the same number of steps (`E < S`), or both refused — except for `E = S`,
    where only the reversed clock is refused (`Nsteps = 0` forward) -/
theorem clock_mirror (S E dt : Int) (ref : Option Int) :
    (∃ a b, TK.init (some S) (some E) dt ref true = .ok a ∧
        TK.init (some S) (some (2 * S - E)) dt ref false = .ok b ∧ a.nsteps = b.nsteps) ∨
    (E = S ∧ TK.init (some S) (some E) dt ref true = .error .exit3 ∧
        ∃ b, TK.init (some S) (some (2 * S - E)) dt ref false = .ok b) ∨
    (TK.init (some S) (some E) dt ref true = .error .exit3 ∧
        TK.init (some S) (some (2 * S - E)) dt ref false = .error .exit3) := by
  by_cases hdt : dt = 0
  · right; right
    simp [TK.init, hdt]
  · rcases lt_trichotomy E S with hlt | heq | hgt
    · left
      obtain ⟨a, ha⟩ := (C13.init_accepts_iff (some S) (some E) dt ref true).2
        ⟨S, E, rfl, rfl, hdt, by simp [hlt]⟩
      obtain ⟨b, hb⟩ := (C13.init_accepts_iff (some S) (some (2 * S - E)) dt ref false).2
        ⟨S, 2 * S - E, rfl, rfl, hdt, by simp; omega⟩
      exact ⟨a, b, ha, hb, C10.nsteps_mirror S E dt ref a b ha hb⟩
    · right; left
      refine ⟨heq, ?_, ?_⟩
      · simp [TK.init, hdt, heq]
      · exact (C13.init_accepts_iff (some S) (some (2 * S - E)) dt ref false).2
          ⟨S, 2 * S - E, rfl, rfl, hdt, by simp; omega⟩
    · right; right
      constructor
      · simp only [TK.init, hdt, if_false]
        rw [if_pos]
        simp; omega
      · simp only [TK.init, hdt, if_false]
        rw [if_pos]
        simp; omega

/-- with `stop = start` the forward releaser has an empty window -/
theorem rel_empty_window (s : Sim) (hc : s.continuous = false) (hw : s.warm = none) (hse : s.stop = s.start) :
    Rel.init (mirror s).relCfg (mirror s).rows = .error .exit3 := by
  apply C04.init_refuses (mirror s).relCfg (mirror s).rows hc (Simulation.relCfg_warm (mirror s) hw)
  intro x _
  show (!(Rel.before false x.time s.start) && Rel.before false x.time (2 * s.start - s.stop)) = false
  simp only [Rel.before, Bool.false_eq_true, if_false, hse]
  have : 2 * s.start - s.start = s.start := by ring
  rw [this]
  cases decide (x.time < s.start) <;> rfl

/-! ### the whole run -/

theorem run_cold (s : Sim) (rnd : Rat → Rat) (tk : TK) (g : GridM) (rel : Rel)
    (htk : TK.init (some s.start) (some s.stop) s.dt s.ref s.rev = .ok tk) (hg : mkGrid s.file s.sub = some g)
    (hrel : Rel.init s.relCfg s.rows = .ok rel) (hw : s.warm = none) :
    ∃ res, s.run rnd = .ok res ∧ res.nsteps = tk.nsteps.toNat ∧
      res.final = (Simulation.envOf s g rel tk.nsteps.toNat rnd).coldRun tk.nsteps.toNat := by
  unfold Sim.run
  simp only [htk, hg, hrel, hw]
  exact ⟨_, rfl, rfl, rfl⟩

theorem run_err_tk (s : Sim) (rnd : Rat → Rat) (e : Refusal)
    (h : TK.init (some s.start) (some s.stop) s.dt s.ref s.rev = .error e) : s.run rnd = .error e :=
  (Simulation.run_refuses_iff s rnd e).2 (Or.inl h)

theorem run_err_rel (s : Sim) (rnd : Rat → Rat) (tk : TK) (g : GridM) (e : Refusal)
    (htk : TK.init (some s.start) (some s.stop) s.dt s.ref s.rev = .ok tk) (hg : mkGrid s.file s.sub = some g)
    (h : Rel.init s.relCfg s.rows = .error e) : s.run rnd = .error e :=
  (Simulation.run_refuses_iff s rnd e).2 (Or.inr (Or.inr ⟨⟨tk, htk⟩, ⟨g, hg⟩, h⟩))

/-- **reverse_eq_mirror_noVert** (cold start, discrete release, no `release_time` particle
    variable, no vertical advection): the reversed run and the mirrored forward run are refused
    alike, and when they run they have the same number of steps and go through the same states:
    same records (particles, pids, positions, variables), same final state, same call log.

    `hedge`: for `stop = start` the reversed clock is refused (status 3) while the forward clock
    runs zero steps, so the mirrored run goes on to the grid and then to the releaser, which
    refuses the empty window (status 3).  With an illegal grid it stops with status 1 instead:
    that corner (`stop = start` *and* an illegal grid) is excluded, see
    `mirror_edge_counterexample`. -/
theorem reverse_eq_mirror_noVert (s : Sim) (rnd : Rat → Rat) (hrev : s.rev = true) (hc : s.continuous = false)
    (hw : s.warm = none) (hrt : s.pvNames.contains "release_time" = false) (hv : s.vertAdv = false)
    (hedge : s.stop = s.start → mkGrid s.file s.sub ≠ none) :
    match s.run rnd, (mirror s).run rnd with
    | .ok a, .ok b => b.nsteps = a.nsteps ∧ b.final.records = a.final.records ∧ b.final.parts = a.final.parts ∧
        b.final.npid = a.final.npid ∧ b.final.log = a.final.log
    | .error e, .error e' => e' = e
    | _, _ => False := by
  have hclock := clock_mirror s.start s.stop s.dt s.ref
  rw [← hrev] at hclock
  rcases hclock with ⟨tk, tk', htk, htk', hn⟩ | ⟨hse, htk, tk', htk'⟩ | ⟨htk, htk'⟩
  · -- both clocks run
    cases hg : mkGrid s.file s.sub with
    | none =>
      rw [Simulation.refuses_bad_grid s rnd tk htk hg,
        Simulation.refuses_bad_grid (mirror s) rnd tk' htk' hg]
    | some g =>
      have hm := rel_mirror s hrev hc hrt
      cases hr : Rel.init s.relCfg s.rows with
      | error e =>
        cases hr' : Rel.init (mirror s).relCfg (mirror s).rows with
        | error e' =>
          rw [hr, hr'] at hm
          rw [run_err_rel s rnd tk g e htk hg hr, run_err_rel (mirror s) rnd tk' g e' htk' hg hr']
          exact hm.symm
        | ok rel' => rw [hr, hr'] at hm; exact hm.elim
      | ok rel =>
        cases hr' : Rel.init (mirror s).relCfg (mirror s).rows with
        | error e' => rw [hr, hr'] at hm; exact hm.elim
        | ok rel' =>
          obtain ⟨a, ha, han, haf⟩ := run_cold s rnd tk g rel htk hg hr hw
          obtain ⟨b, hb, hbn, hbf⟩ := run_cold (mirror s) rnd tk' g rel' htk' hg hr' hw
          rw [ha, hb]
          have hfin : b.final = a.final := by
            rw [hbf, haf, ← hn, envOf_mirror s rnd hrev hc hrt hv g rel rel' hr hr']
          exact ⟨by rw [hbn, han, hn], by rw [hfin], by rw [hfin], by rw [hfin], by rw [hfin]⟩
  · -- stop = start: the reversed clock refuses, the forward releaser has an empty window
    cases hg : mkGrid s.file s.sub with
    | none => exact absurd hg (hedge hse)
    | some g =>
      rw [run_err_tk s rnd _ htk,
        run_err_rel (mirror s) rnd tk' g _ htk' hg (rel_empty_window s hc hw hse)]
  · rw [run_err_tk s rnd _ htk, run_err_tk (mirror s) rnd _ htk']

/-- for `stop ≠ start` no condition on the grid is needed -/
theorem reverse_eq_mirror_noVert' (s : Sim) (rnd : Rat → Rat) (hrev : s.rev = true) (hc : s.continuous = false)
    (hw : s.warm = none) (hrt : s.pvNames.contains "release_time" = false) (hv : s.vertAdv = false)
    (hne : s.stop ≠ s.start) :
    match s.run rnd, (mirror s).run rnd with
    | .ok a, .ok b => b.nsteps = a.nsteps ∧ b.final.records = a.final.records ∧ b.final.parts = a.final.parts ∧
        b.final.npid = a.final.npid ∧ b.final.log = a.final.log
    | .error e, .error e' => e' = e
    | _, _ => False :=
  reverse_eq_mirror_noVert s rnd hrev hc hw hrt hv (fun h => absurd h hne)

/-! ### the excluded corner, and non-vacuity -/

/-- a set-up with `stop = start` and an illegal (empty) grid file -/
def edgeSim : Sim :=
  { start := 0, stop := 0, dt := 60, rev := true, ref := none,
    file := { h := [], mask := [], dx := [], hc := 0, CsR := [], vtransform := 1 }, sub := none,
    frames := [], rawU := fun _ _ => [], rawV := fun _ _ => [], rawS := [],
    continuous := false, freq := 60, rows := [], pvNames := [], ivDefaults := [],
    scheme := .EF, vertAdv := false, ageing := false, kills := fun _ => [],
    period := 1, sparse := true, numrec := 0, stem := "out", suffix := ".nc", outIv := [], outPv := [],
    warm := none }

/-- the hypothesis `hedge` of `reverse_eq_mirror_noVert` cannot be dropped: with `stop = start`
    and an illegal grid the reversed run is refused by the clock (status 3), the mirrored forward
    run by the grid (status 1) -/
theorem mirror_edge_counterexample (rnd : Rat → Rat) :
    edgeSim.rev = true ∧ edgeSim.continuous = false ∧ edgeSim.warm = none ∧
    edgeSim.pvNames.contains "release_time" = false ∧ edgeSim.vertAdv = false ∧
    edgeSim.run rnd = .error .exit3 ∧ (mirror edgeSim).run rnd = .error .exit1 := by
  refine ⟨rfl, rfl, rfl, rfl, rfl, run_err_tk edgeSim rnd _ rfl, ?_⟩
  obtain ⟨tk, htk⟩ : ∃ tk, TK.init (some (mirror edgeSim).start) (some (mirror edgeSim).stop) (mirror edgeSim).dt
      (mirror edgeSim).ref (mirror edgeSim).rev = .ok tk := ⟨_, rfl⟩
  exact Simulation.refuses_bad_grid (mirror edgeSim) rnd tk htk rfl

/-- the hypotheses on the clock are satisfiable -/
example : ∃ tk, TK.init (some 600) (some 0) 60 none true = .ok tk := ⟨_, rfl⟩
example : ∃ tk, TK.init (some 600) (some (2 * 600 - 0)) 60 none false = .ok tk := ⟨_, rfl⟩

/-- a set-up that meets every hypothesis of `reverse_eq_mirror_noVert` and runs: ten steps back
    from 600 to 0 on a 3 × 3 grid, one particle released at the start -/
def exSim : Sim :=
  { edgeSim with
    start := 600, stop := 0,
    file := { h := [[10, 10, 10], [10, 10, 10], [10, 10, 10]], mask := [[1, 1, 1], [1, 1, 1], [1, 1, 1]],
              dx := [[100, 100, 100], [100, 100, 100], [100, 100, 100]], hc := 0, CsR := [], vtransform := 1 },
    rows := [{ time := 600, mult := 1, cols := [("X", .num 1), ("Y", .num 1), ("Z", .num 0)] }] }

example (rnd : Rat → Rat) :
    exSim.rev = true ∧ exSim.continuous = false ∧ exSim.warm = none ∧
    exSim.pvNames.contains "release_time" = false ∧ exSim.vertAdv = false ∧
    (exSim.stop = exSim.start → mkGrid exSim.file exSim.sub ≠ none) ∧
    (∃ a, exSim.run rnd = .ok a) ∧ (∃ b, (mirror exSim).run rnd = .ok b) := by
  refine ⟨rfl, rfl, rfl, rfl, rfl, fun h => absurd h (by decide), ?_, ?_⟩
  · refine (Simulation.accepts_iff exSim rnd rfl rfl).2 ⟨⟨by decide, by decide⟩, ⟨_, rfl⟩, ?_⟩
    exact ⟨_, List.mem_singleton.2 rfl, by decide⟩
  · refine (Simulation.accepts_iff (mirror exSim) rnd rfl rfl).2 ⟨⟨by decide, by decide⟩, ⟨_, rfl⟩, ?_⟩
    exact ⟨_, List.mem_singleton.2 rfl, by decide⟩


end Ladim.SimMirror
