import Ladim.Props.Simulation
import Ladim.Props.SimCorollaries
/-
Schedules of the whole simulation in terms of *times* (the vocabulary of C04 and C07), for windows
that are a whole number of time steps long: which output times are written, and the release
schedule of a continuous release.
-/

namespace Ladim.SimSchedule
open Ladim

/-- the time of step `n` in the direction of the run -/
def timeOf (s : Sim) (n : Int) : Int := if s.rev then s.start - n * s.dt else s.start + n * s.dt

/-- **output_times** (C07 in terms of times; cold start, sparse layout): when the window is a
    whole number of time steps long, the steps of the records written are exactly those whose time
    `start ± k·p·dt` lies in `[start, stop)` (in the direction of the run): `st` is an output step
    iff `p ∣ st`, `0 ≤ st` and the time of `st` is strictly before the stop time -/
theorem output_times (s : Sim) (rnd : Rat → Rat) (res : SimResult) (tk : TK) (g : GridM) (rel : Rel)
    (hp : Simulation.Parts s rnd res tk g rel) (hdt : 0 < s.dt) (hdiv : s.dt ∣ s.stop - s.start)
    (hper : 1 ≤ s.period) (st : Int) :
    st ∈ C07.dueSteps res.nsteps s.period ↔
      0 ≤ st ∧ s.period ∣ st ∧ Rel.before s.rev (timeOf s st) s.stop = true := by
  have st0 := C13.init_started hp.htk
  obtain ⟨h0, h1, h2⟩ := C13.nsteps_floor hp.htk hdt
  have hN : (res.nsteps : Int) = tk.nsteps := by rw [hp.hnsteps]; exact Int.toNat_of_nonneg h0
  rw [← hN] at h1 h2
  have hside := st0.hside
  obtain ⟨m, hm⟩ := hdiv
  rw [C07.dueSteps_spec _ _ hper st]
  have hkey : 0 ≤ st → (st < (res.nsteps : Int) ↔ Rel.before s.rev (timeOf s st) s.stop = true) := by
    intro hst
    unfold timeOf Rel.before
    cases hr : s.rev
    · rw [hr] at hside
      have hge : ¬ (s.stop - s.start < 0) := by simpa using hside.symm
      have hm0 : 0 ≤ m := by
        by_contra hneg
        have : s.dt * m < 0 := Int.mul_neg_of_pos_of_neg hdt (by omega)
        omega
      rw [abs_of_nonneg (by omega), hm] at h1 h2
      have e1 : (res.nsteps : Int) ≤ m := by
        rw [Int.mul_comm] at h1
        exact Int.le_of_mul_le_mul_left h1 hdt
      have e2 : m < (res.nsteps : Int) + 1 := by
        rw [Int.mul_comm _ s.dt] at h2
        exact Int.lt_of_mul_lt_mul_left h2 (le_of_lt hdt)
      have hNm : (res.nsteps : Int) = m := by omega
      simp only [Bool.false_eq_true, if_false, decide_eq_true_eq]
      rw [hNm]
      constructor
      · intro h
        have : s.dt * st < s.dt * m := Int.mul_lt_mul_of_pos_left h hdt
        rw [Int.mul_comm st s.dt]; omega
      · intro h
        have : s.dt * st < s.dt * m := by rw [Int.mul_comm s.dt st]; omega
        exact Int.lt_of_mul_lt_mul_left this (le_of_lt hdt)
    · rw [hr] at hside
      have hlt : s.stop - s.start < 0 := by simpa using hside.symm
      rw [abs_of_neg hlt, hm] at h1 h2
      have e1 : (res.nsteps : Int) ≤ -m := by
        have : s.dt * (res.nsteps : Int) ≤ s.dt * (-m) := by
          rw [Int.mul_comm s.dt (res.nsteps : Int), Int.mul_neg]; exact h1
        exact Int.le_of_mul_le_mul_left this hdt
      have e2 : -m < (res.nsteps : Int) + 1 := by
        have : s.dt * (-m) < s.dt * ((res.nsteps : Int) + 1) := by
          rw [Int.mul_comm s.dt ((res.nsteps : Int) + 1), Int.mul_neg]; exact h2
        exact Int.lt_of_mul_lt_mul_left this (le_of_lt hdt)
      have hNm : (res.nsteps : Int) = -m := by omega
      simp only [if_true, decide_eq_true_eq]
      rw [hNm]
      constructor
      · intro h
        have : s.dt * st < s.dt * (-m) := Int.mul_lt_mul_of_pos_left h hdt
        rw [Int.mul_neg] at this
        rw [Int.mul_comm st s.dt]; omega
      · intro h
        have : s.dt * st < s.dt * (-m) := by rw [Int.mul_neg, Int.mul_comm s.dt st]; omega
        exact Int.lt_of_mul_lt_mul_left this (le_of_lt hdt)
  constructor
  · rintro ⟨a, b, c⟩
    exact ⟨a, c, (hkey a).1 b⟩
  · rintro ⟨a, c, b⟩
    exact ⟨a, (hkey a).2 b, c⟩

/-- **release_schedule_continuous** (cold start, continuous release; the hypotheses of
    `C04.continuous_ticks`): at step `k` of the run the row set of the latest file time at or before
    the tick is released again when the time of the step is a release-frequency tick (counted from
    the first file time) inside the window, and nothing otherwise -/
theorem release_schedule_continuous (s : Sim) (rnd : Rat → Rat) (res : SimResult) (tk : TK) (g : GridM) (rel : Rel)
    (hp : Simulation.Parts s rnd res tk g rel) (hdt : 0 < s.dt) (hf : 0 < s.freq) (hfd : s.dt ∣ s.freq)
    (hc : s.continuous = true) (hw : s.warm = none)
    (hs : C04.SimSorted s.rev s.rows) (t0 : Int) (ht0 : (uniqueTimes s.rows).head? = some t0)
    (hg0 : s.dt ∣ t0 - s.start) (hg : ∀ x ∈ s.rows, s.freq ∣ x.time - t0)
    (k : Nat) (hk : k ≤ res.nsteps) :
    (Simulation.envOf s g rel res.nsteps rnd).release (k : Int) =
      (if C04.isTick s.relCfg t0 (timeOf s k) && C04.inWindow s.relCfg (timeOf s k) then
        match C04.fileTimeAt s.relCfg (s.rows.filter (fun x => Rel.before s.rev x.time s.stop)) (timeOf s k) with
        | some ft => Rel.expand (((s.rows.filter (fun x => x.time == ft)).map (fun x => { x with time := timeOf s k })).map (C04.decorate s.relCfg))
        | none => []
       else []).map s.rowToRP := by
  have h := C04.continuous_ticks s.relCfg s.rows hdt hf hfd hc (Simulation.relCfg_warm s hw) hs t0 ht0 hg0 hg
    rel hp.hrel (res.nsteps + 1) k (by omega)
  have hl := Simulation.relTable_lookup rel (res.nsteps + 1) k (by omega) _ h
  show (((rel.run 0 (res.nsteps + 1)).lookup (k : Int)).getD []).map s.rowToRP = _
  rw [hl]
  rfl

end Ladim.SimSchedule
