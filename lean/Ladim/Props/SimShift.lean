import Ladim.Props.Simulation
import Ladim.Props.C14
/-
C14 (time-shift invariance) for the whole simulation: shifting every time of the set-up — start,
stop, reference time, release times; the forcing frames keep their step numbers, which is what
shifting the frame times by the same amount does (`C14.time_shift_invariant`) — by any amount
`d` leaves the run unchanged: same refusals, same number of steps, same particles at the same
positions with the same variables in every record, same call log.  Particle variables of type
time (`release_time`) are shifted by `d`, everything else is literally equal.

Proof: the clock and the releaser refuse alike (`tk_shift`, `init_shift`); the two release tables
are two decorations of the same undecorated table (`run_decorated`), so the released particles
correspond one to one (`rowToRP_addc`); forcing, tracker and IBM of the ROMS environment do not
read the particle variables (`force_mapPv`, `move_mapPv`, `ibm_mapPv`), hence the loop commutes
with the shift of `release_time` (`stepBody_comm`, `updates_comm`).
-/

namespace Ladim.SimShift
open Ladim

/-- every time of the set-up moved by `d` seconds -/
def shift (s : Sim) (d : Int) : Sim :=
  { s with start := s.start + d, stop := s.stop + d, ref := s.ref.map (· + d),
           rows := s.rows.map (C14.shiftRow d) }

/-- a particle with its time-typed particle variable moved by `d` -/
def shiftRP (d : Int) (p : RP) : RP :=
  { p with pvars := p.pvars.map (fun (k, v) =>
      if k == "release_time" then (k, match v with | .num q => Val.num (q + d) | .nan => Val.nan) else (k, v)) }

/-! ### the per-particle functions of the ROMS environment do not read the particle variables -/

/-- rewrite the particle variables of a particle -/
def mapPv (g : List (String × Val) → List (String × Val)) (p : RP) : RP := { p with pvars := g p.pvars }

theorem force_mapPv (S : RomsSetup) (g : List (String × Val) → List (String × Val)) (n : Int) (p : RP) :
    S.force n (mapPv g p) = mapPv g (S.force n p) := by
  rw [Whole.force_eq, Whole.force_eq]
  rfl

theorem move_mapPv (S : RomsSetup) (g : List (String × Val) → List (String × Val)) (n : Int) (p : RP) :
    S.move n (mapPv g p) = mapPv g (S.move n p) := by
  show S.move n { p with pvars := g p.pvars } = mapPv g (S.move n p)
  unfold RomsSetup.move
  simp only []
  cases trackerStep S.cfg S.g (S.oracle n p.x p.y p.z) 0 0 0 (S.sign * RomsSetup.valRat (RomsSetup.lookupVar p.vars "w"))
      { x := p.x, y := p.y, z := p.z, alive := p.alive, active := p.active } <;> rfl

theorem ibm_mapPv (S : RomsSetup) (g : List (String × Val) → List (String × Val)) (n : Int) (p : RP) :
    S.ibm n (mapPv g p) = mapPv g (S.ibm n p) := by
  show S.ibm n { p with pvars := g p.pvars } = mapPv g (S.ibm n p)
  unfold RomsSetup.ibm
  simp only []
  cases S.ageing <;> cases (S.kills n).contains p.pid <;> rfl

/-! ### a particle-wise map that commutes with the environment commutes with the loop -/

def mapState (φ : RP → RP) (st : RState) : RState :=
  { parts := st.parts.map φ, npid := st.npid, log := st.log,
    records := st.records.map (fun r => (r.1, r.2.map φ)) }

structure Commutes (env env' : RunEnv) (φ : RP → RP) : Prop where
  release : ∀ n, env'.release n = (env.release n).map φ
  force : ∀ n p, env'.force n (φ p) = φ (env.force n p)
  move : ∀ n p, env'.move n (φ p) = φ (env.move n p)
  ibm : ∀ n p, env'.ibm n (φ p) = φ (env.ibm n p)
  due : ∀ n, env'.due n = env.due n
  sparse : env'.sparse = env.sparse
  alive : ∀ p, (φ p).alive = p.alive
  pid : ∀ p i, φ { p with pid := i } = { φ p with pid := i }

theorem filter_alive_map (φ : RP → RP) (ha : ∀ p, (φ p).alive = p.alive) (l : List RP) :
    (l.map φ).filter (·.alive) = (l.filter (·.alive)).map φ := by
  rw [List.filter_map]
  congr 1
  apply List.filter_congr
  intro x _
  simp [Function.comp, ha]

theorem assignPids_map (φ : RP → RP) (hp : ∀ p i, φ { p with pid := i } = { φ p with pid := i })
    (k : Nat) (l : List RP) : RunEnv.assignPids k (l.map φ) = (RunEnv.assignPids k l).map φ := by
  unfold RunEnv.assignPids
  rw [List.zipIdx_map, List.map_map, List.map_map]
  apply List.map_congr_left
  rintro ⟨p, i⟩ _
  exact (hp p (k + i)).symm

theorem map_comm {φ f f' : RP → RP} (h : ∀ p, f' (φ p) = φ (f p)) (l : List RP) :
    (l.map φ).map f' = (l.map f).map φ := by
  rw [List.map_map, List.map_map]
  apply List.map_congr_left
  intro p _
  exact h p

theorem stepBody_comm {env env' : RunEnv} {φ : RP → RP} (h : Commutes env env' φ) (n : Int) (b : Bool)
    (st : RState) :
    RunEnv.stepBody env' n b (mapState φ st) = mapState φ (RunEnv.stepBody env n b st) := by
  have h2 : ((if env'.sparse then (st.parts.map φ).filter (·.alive) else st.parts.map φ) ++
        RunEnv.assignPids st.npid (env'.release n)).map (env'.force n) =
      (((if env.sparse then st.parts.filter (·.alive) else st.parts) ++
        RunEnv.assignPids st.npid (env.release n)).map (env.force n)).map φ := by
    rw [h.sparse, h.release, assignPids_map φ h.pid, ← map_comm (h.force n)]
    cases env.sparse
    · simp
    · simp [filter_alive_map φ h.alive]
  have hl : (RunEnv.assignPids st.npid (env'.release n)).length = (RunEnv.assignPids st.npid (env.release n)).length := by
    simp [RunEnv.assignPids, h.release]
  unfold RunEnv.stepBody
  simp only [mapState]
  rw [h2, hl, h.due, h.sparse]
  have h3 : ∀ (c : Bool) (P : List RP), (if c = true then (P.map φ).filter (·.alive) else P.map φ) =
      (if c = true then P.filter (·.alive) else P).map φ := by
    intro c P
    cases c
    · rfl
    · simp [filter_alive_map φ h.alive]
  rw [h3, map_comm (h.move n), map_comm (h.ibm n)]
  cases (b && decide (0 ≤ n) && env.due n) <;> simp

theorem updates_comm {env env' : RunEnv} {φ : RP → RP} (h : Commutes env env' φ) :
    ∀ (k : Nat) (first : Int) (st : RState),
    RunEnv.updates env' first k (mapState φ st) = mapState φ (RunEnv.updates env first k st)
  | 0, _, _ => rfl
  | k + 1, first, st => by
    show RunEnv.updates env' (first + 1) k (RunEnv.stepBody env' first true
        (mapState φ { st with log := st.log ++ [(first, Call.time)] })) = _
    rw [stepBody_comm h, updates_comm h k]
    rfl

theorem coldRun_comm {env env' : RunEnv} {φ : RP → RP} (h : Commutes env env' φ) (n : Nat) :
    RunEnv.coldRun env' n = mapState φ (RunEnv.coldRun env n) :=
  updates_comm h n 0 RunEnv.empty

/-! ### agreement of two outcomes -/

/-- two outcomes agree: refused alike (same status), or both accepted with related results -/
def Agree {α : Type} (P : α → α → Prop) : Except Refusal α → Except Refusal α → Prop
  | .ok a, .ok b => P a b
  | .error e, .error e' => e' = e
  | _, _ => False

/-- the clock of the shifted set-up: refused alike, same number of steps -/
theorem tk_shift (S E dt d : Int) (ref : Option Int) (rev : Bool) :
    Agree (fun a b => b.nsteps = a.nsteps) (TK.init (some S) (some E) dt ref rev)
      (TK.init (some (S + d)) (some (E + d)) dt (ref.map (· + d)) rev) := by
  unfold TK.init
  have e : E + d - (S + d) = E - S := by omega
  simp only [e]
  split_ifs <;> simp [Agree]

/-- the skeleton of `Sim.run` -/
def runWith (tkr : Except Refusal TK) (gr : Option GridM) (relr : Except Refusal Rel)
    (k : TK → GridM → Rel → SimResult) : Except Refusal SimResult :=
  match tkr with
  | .error e => .error e
  | .ok tk =>
    match gr with
    | none => .error .exit1
    | some g =>
      match relr with
      | .error e => .error e
      | .ok rel => .ok (k tk g rel)

theorem runWith_agree (tkr tkr' : Except Refusal TK) (gr : Option GridM) (relr relr' : Except Refusal Rel)
    (k k' : TK → GridM → Rel → SimResult) (PT : TK → TK → Prop) (P : SimResult → SimResult → Prop)
    (hT : Agree PT tkr tkr') (hR : Agree (fun _ _ => True) relr relr')
    (hk : ∀ tk tk' g rel rel', tkr = .ok tk → tkr' = .ok tk' → PT tk tk' → gr = some g → relr = .ok rel →
      relr' = .ok rel' → P (k tk g rel) (k' tk' g rel')) :
    Agree P (runWith tkr gr relr k) (runWith tkr' gr relr' k') := by
  cases tkr with
  | error e =>
    cases tkr' with
    | error e' => exact hT
    | ok _ => exact hT.elim
  | ok tk =>
    cases tkr' with
    | error e' => exact hT.elim
    | ok tk' =>
      cases gr with
      | none => exact rfl
      | some g =>
        cases relr with
        | error e =>
          cases relr' with
          | error e' => exact hR
          | ok _ => exact hR.elim
        | ok rel =>
          cases relr' with
          | error e' => exact hR.elim
          | ok rel' => exact hk tk tk' g rel rel' rfl rfl hT rfl rfl rfl

/-! ### the releaser of the shifted set-up -/

open Ladim.C14 (shiftRow shiftCfg stage4 stage5 addc tkOf)

/-- `Rel.init` in decision form -/
theorem init_form (c : RelCfg) (rows : List RRow) : Rel.init c rows =
    if (rows.filter (fun r => Rel.before c.rev r.time c.stop)).isEmpty then .error .exit3 else
    if (stage4 c rows).isEmpty && !c.warm then .error .exit3 else
    .ok { steps := (uniqueTimes (stage5 c rows)).map (tkOf c).time2step,
          groups := (uniqueTimes (stage5 c rows)).map (fun t => (stage5 c rows).filter (fun x : RRow => x.time == t)),
          index := 0,
          total := ((stage5 c rows).map (·.mult)).foldl (· + ·) 0 } := rfl

theorem init_ok' (c : RelCfg) (rows : List RRow) (r : Rel) (h : Rel.init c rows = .ok r) :
    r = { steps := (uniqueTimes (stage5 c rows)).map (tkOf c).time2step,
          groups := (uniqueTimes (stage5 c rows)).map (fun t => (stage5 c rows).filter (fun x : RRow => x.time == t)),
          index := 0,
          total := ((stage5 c rows).map (·.mult)).foldl (· + ·) 0 } := by
  rw [init_form] at h
  split_ifs at h
  cases h
  rfl

/-- the releaser refuses the shifted table exactly when it refuses the original, with the same status -/
theorem init_shift (c : RelCfg) (rows : List RRow) (d : Int) :
    Agree (fun _ _ => True) (Rel.init c rows) (Rel.init (shiftCfg d c) (rows.map (shiftRow d))) := by
  rw [init_form, init_form, C14.stage4_shift]
  have h1 : ((rows.map (shiftRow d)).filter
      (fun r => Rel.before (shiftCfg d c).rev r.time (shiftCfg d c).stop)).isEmpty =
      (rows.filter (fun r => Rel.before c.rev r.time c.stop)).isEmpty := by
    have := C14.filter_shift d (fun t => Rel.before c.rev t c.stop) (fun t => Rel.before c.rev t (c.stop + d))
      (fun t => C14.before_shift _ _ _ _) rows
    show (List.filter (fun r : RRow => Rel.before c.rev r.time (c.stop + d)) _).isEmpty = _
    rw [this, List.isEmpty_map]
  have h2 : (shiftCfg d c).warm = c.warm := rfl
  rw [h1, h2, List.isEmpty_map]
  split_ifs <;> simp [Agree]

theorem expand_map (A : RRow → RRow) (hm : ∀ x, (A x).mult = x.mult) (g : List RRow) :
    Rel.expand (g.map A) = (Rel.expand g).map A := by
  unfold Rel.expand
  rw [List.flatMap_map, List.map_flatMap]
  congr 1
  funext x
  rw [hm, List.map_replicate]

theorem update_mapGroups (A : RRow → RRow) (hm : ∀ x, (A x).mult = x.mult) (r r' : Rel) (step : Int)
    (hs : r'.steps = r.steps) (hi : r'.index = r.index) (hg : r'.groups = r.groups.map (·.map A)) :
    (r'.update step).2 = (r.update step).2.map A ∧ (r'.update step).1.steps = (r.update step).1.steps ∧
    (r'.update step).1.index = (r.update step).1.index ∧
    (r'.update step).1.groups = (r.update step).1.groups.map (·.map A) := by
  unfold Rel.update
  rw [hs, hi, hg, List.getElem?_map]
  split
  · cases r.groups[r.index]? with
    | none => exact ⟨rfl, hs, hi, hg⟩
    | some g => exact ⟨expand_map A hm g, rfl, rfl, rfl⟩
  · exact ⟨rfl, hs, hi, hg⟩

theorem run_mapGroups (A : RRow → RRow) (hm : ∀ x, (A x).mult = x.mult) :
    ∀ (n : Nat) (r r' : Rel) (first : Int), r'.steps = r.steps → r'.index = r.index →
      r'.groups = r.groups.map (·.map A) →
      Rel.run r' first n = (Rel.run r first n).map (fun p => (p.1, p.2.map A))
  | 0, _, _, _, _, _, _ => rfl
  | n + 1, r, r', first, hs, hi, hg => by
    obtain ⟨h1, h2, h3, h4⟩ := update_mapGroups A hm r r' first hs hi hg
    show ((first, (r'.update first).2) :: Rel.run (r'.update first).1 (first + 1) n) = _
    rw [h1, run_mapGroups A hm n (r.update first).1 (r'.update first).1 (first + 1) h2 h3 h4]
    rfl

theorem lookup_map_snd {α β : Type} (f : α → β) (k : Int) (l : List (Int × α)) :
    (l.map (fun p => (p.1, f p.2))).lookup k = (l.lookup k).map f := by
  induction l with
  | nil => rfl
  | cons a l ih =>
    obtain ⟨a1, a2⟩ := a
    simp only [List.map_cons, List.lookup_cons]
    cases k == a1
    · exact ih
    · rfl

/-- the releaser without the decoration of the rows -/
def baseRel (c : RelCfg) (R : List RRow) : Rel :=
  { steps := (uniqueTimes R).map (tkOf c).time2step,
    groups := (uniqueTimes R).map (fun t => R.filter (·.time == t)),
    index := 0, total := 0 }

theorem uniqueTimes_map (B : RRow → RRow) (e : Int) (hBt : ∀ x, (B x).time = x.time + e) (R : List RRow) :
    uniqueTimes (R.map B) = (uniqueTimes R).map (· + e) := by
  apply C14.uniqueTimes_shift
  simp only [List.map_map]
  apply List.map_congr_left
  intro x _
  simp [Function.comp, hBt]

theorem filter_time_map (B : RRow → RRow) (e : Int) (hBt : ∀ x, (B x).time = x.time + e) (R : List RRow) (t : Int) :
    (R.map B).filter (fun x : RRow => x.time == t + e) = (R.filter (fun x : RRow => x.time == t)).map B := by
  rw [List.filter_map]
  congr 1
  apply List.filter_congr
  intro x _
  simp [Function.comp, hBt]

/-- the release table of a releaser whose rows are a decoration `B` of the table `R` -/
theorem run_decorated (c c' : RelCfg) (R : List RRow) (B : RRow → RRow) (e : Int)
    (hBt : ∀ x, (B x).time = x.time + e) (hBm : ∀ x, (B x).mult = x.mult)
    (hstep : ∀ t, (tkOf c').time2step (t + e) = (tkOf c).time2step t) (r : Rel) (tot : Nat)
    (hr : r = { steps := (uniqueTimes (R.map B)).map (tkOf c').time2step,
                groups := (uniqueTimes (R.map B)).map (fun t => (R.map B).filter (fun x : RRow => x.time == t)),
                index := 0, total := tot }) (first : Int) (n : Nat) :
    r.run first n = ((baseRel c R).run first n).map (fun p => (p.1, p.2.map B)) := by
  subst hr
  apply run_mapGroups B hBm n (baseRel c R) _ first
  · show (uniqueTimes (R.map B)).map (tkOf c').time2step = (uniqueTimes R).map (tkOf c).time2step
    rw [uniqueTimes_map B e hBt, List.map_map]
    apply List.map_congr_left
    intro t _
    exact hstep t
  · rfl
  · show (uniqueTimes (R.map B)).map (fun t => (R.map B).filter (fun x : RRow => x.time == t)) =
      ((uniqueTimes R).map (fun t => R.filter (fun x : RRow => x.time == t))).map (·.map B)
    rw [uniqueTimes_map B e hBt, List.map_map, List.map_map]
    apply List.map_congr_left
    intro t _
    exact filter_time_map B e hBt R t

theorem getD_map_nil {α β : Type} (f : α → β) (o : Option (List α)) :
    (o.map (·.map f)).getD [] = (o.getD []).map f := by
  cases o <;> rfl

/-! ### rows without a `release_time` column of their own -/

def NoRT (x : RRow) : Prop := ∀ c ∈ x.cols, c.1 ≠ "release_time"

/-- remove the `release_time` columns of a row -/
def clean (x : RRow) : RRow := { x with cols := x.cols.filter (fun c => c.1 != "release_time") }

theorem clean_noRT (x : RRow) : NoRT (clean x) := by
  intro c hc
  have := (List.mem_filter.1 hc).2
  simpa using this

theorem clean_eq (x : RRow) (h : NoRT x) : clean x = x := by
  unfold clean
  have : x.cols.filter (fun c => c.1 != "release_time") = x.cols := by
    rw [List.filter_eq_self]
    intro c hc
    simpa using h c hc
  rw [this]

theorem foldl_dstep_noRT (ft : List Int) (rows : List RRow) (hr : ∀ x ∈ rows, NoRT x) (ticks : List Int) :
    ∀ acc : List RRow × List RRow, (∀ x ∈ acc.1, NoRT x) → (∀ x ∈ acc.2, NoRT x) →
      (∀ x ∈ (ticks.foldl (C14.dstep ft rows) acc).1, NoRT x) := by
  induction ticks with
  | nil => intro acc h1 _; exact h1
  | cons t ticks ih =>
    intro acc h1 h2
    rw [List.foldl_cons]
    have hcur : ∀ x ∈ (if ft.contains t then rows.filter (fun x : RRow => x.time == t) else acc.2), NoRT x := by
      split
      · intro x hx; exact hr x (List.mem_filter.1 hx).1
      · exact h2
    apply ih
    · intro x hx
      simp only [C14.dstep, List.mem_append, List.mem_map] at hx
      rcases hx with hx | ⟨y, hy, rfl⟩
      · exact h1 x hx
      · exact hcur y hy
    · exact hcur

theorem discretize_noRT (c : RelCfg) (rows : List RRow) (hr : ∀ x ∈ rows, NoRT x) :
    ∀ x ∈ Rel.discretize c rows, NoRT x := by
  rw [C14.discretize_eq]
  cases uniqueTimes rows with
  | nil => intro x hx; cases hx
  | cons t0 tl =>
    exact foldl_dstep_noRT _ rows hr _ ([], []) (fun x hx => by cases hx) (fun x hx => by cases hx)

theorem stage4_noRT (c : RelCfg) (rows : List RRow) (hr : ∀ x ∈ rows, NoRT x) : ∀ x ∈ stage4 c rows, NoRT x := by
  have h1 : ∀ x ∈ rows.filter (fun r => Rel.before c.rev r.time c.stop), NoRT x :=
    fun x hx => hr x (List.mem_filter.1 hx).1
  have h2 : ∀ x ∈ (if c.continuous then Rel.discretize c (rows.filter (fun r => Rel.before c.rev r.time c.stop))
      else rows.filter (fun r => Rel.before c.rev r.time c.stop)), NoRT x := by
    split
    · exact discretize_noRT c _ h1
    · exact h1
  intro x hx
  unfold C14.stage4 at hx
  simp only at hx
  split at hx
  · exact h2 x (List.mem_filter.1 (List.mem_filter.1 hx).1).1
  · exact h2 x (List.mem_filter.1 hx).1

/-! ### the particle of a decorated row -/

theorem lookup_append_ne (l : List (String × Val)) (k n : String) (v : Val) (h : n ≠ k) :
    PState.lookup (l ++ [(k, v)]) n = PState.lookup l n := by
  unfold PState.lookup
  rw [List.find?_append]
  cases l.find? (fun x => x.1 == n) with
  | some a => rfl
  | none =>
    have : (k == n) = false := by simpa using fun e => h e.symm
    simp [this]

theorem lookup_append_self (l : List (String × Val)) (k : String) (v : Val) (h : ∀ c ∈ l, c.1 ≠ k) :
    PState.lookup (l ++ [(k, v)]) k = some v := by
  unfold PState.lookup
  rw [List.find?_append]
  have : l.find? (fun x => x.1 == k) = none := by
    rw [List.find?_eq_none]
    intro c hc
    simpa using h c hc
  rw [this]
  simp

/-- the shift of the time-typed particle variable -/
def shiftPv (d : Int) (l : List (String × Val)) : List (String × Val) :=
  l.map (fun (k, v) =>
    if k == "release_time" then (k, match v with | .num q => Val.num (q + d) | .nan => Val.nan) else (k, v))

theorem shiftRP_eq (d : Int) : shiftRP d = mapPv (shiftPv d) := rfl

/-- a decorated row of the shifted set-up gives the shifted particle of the original's -/
theorem rowToRP_addc (s : Sim) (hiv : ∀ p ∈ s.ivDefaults, p.1 ≠ "release_time") (d : Int) (x : RRow)
    (hx : NoRT x) : s.rowToRP (addc (shiftRow d x)) = shiftRP d (s.rowToRP (addc x)) := by
  have hne : ∀ (n : String) (v : Val), n ≠ "release_time" →
      PState.lookup (x.cols ++ [("release_time", v)]) n = PState.lookup x.cols n :=
    fun n v h => lookup_append_ne x.cols "release_time" n v h
  unfold Sim.rowToRP shiftRP
  simp only [addc, shiftRow, Sim.lookupVal]
  rw [RP.mk.injEq]
  refine ⟨rfl, ?_, ?_, ?_, ?_, ?_, ?_, ?_⟩
  · rw [hne _ _ (by decide), hne _ _ (by decide)]
  · rw [hne _ _ (by decide), hne _ _ (by decide)]
  · rw [hne _ _ (by decide), hne _ _ (by decide)]
  · unfold Sim.flagOf
    rw [hne _ _ (by decide), hne _ _ (by decide)]
  · unfold Sim.flagOf
    rw [hne _ _ (by decide), hne _ _ (by decide)]
  · apply List.map_congr_left
    rintro ⟨n, v⟩ hn
    rw [hne _ _ (hiv _ hn), hne _ _ (hiv _ hn)]
  · rw [List.map_map]
    apply List.map_congr_left
    intro n _
    by_cases h : n = "release_time"
    · subst h
      simp only [Function.comp_apply, lookup_append_self _ _ _ hx]
      simp
    · simp only [Function.comp_apply, hne _ _ h]
      simp [h]

/-- without a `release_time` particle variable the shift of a released particle is the identity -/
theorem shiftRP_rowToRP (s : Sim) (hrt : s.pvNames.contains "release_time" = false) (d : Int) (x : RRow) :
    shiftRP d (s.rowToRP x) = s.rowToRP x := by
  unfold Sim.rowToRP shiftRP
  simp only
  rw [RP.mk.injEq]
  refine ⟨rfl, rfl, rfl, rfl, rfl, rfl, rfl, ?_⟩
  rw [List.map_map]
  apply List.map_congr_left
  intro n hn
  have : n ≠ "release_time" := by
    rintro rfl
    have h2 : s.pvNames.contains "release_time" = true := by simpa using hn
    rw [hrt] at h2
    cases h2
  simp [this]

/-! ### the whole run -/

/-- the result of an accepted run, from its clock, grid and releaser -/
def result (s : Sim) (rnd : Rat → Rat) (tk : TK) (g : GridM) (rel : Rel) : SimResult :=
  let nsteps := tk.nsteps.toNat
  let nrun := nsteps + 1
  let relTable := rel.run 0 nrun
  let env := (s.setup g nrun relTable rnd).env
  let final := match s.warm with
    | none => env.coldRun nsteps
    | some w => env.warmRun nsteps w.parts w.npid
  { nsteps := nsteps, final := final,
    files := (s.outSpec tk relTable).runFiles (if s.sparse then .sparse else .dense) nsteps s.period
               s.numrec s.stem s.suffix final.records s.warm.isSome }

theorem run_form (s : Sim) (rnd : Rat → Rat) :
    s.run rnd = runWith (TK.init (some s.start) (some s.stop) s.dt s.ref s.rev) (mkGrid s.file s.sub)
      (Rel.init s.relCfg s.rows) (result s rnd) := rfl

theorem result_nsteps (s : Sim) (rnd : Rat → Rat) (tk : TK) (g : GridM) (rel : Rel) :
    (result s rnd tk g rel).nsteps = tk.nsteps.toNat := rfl

theorem result_final (s : Sim) (rnd : Rat → Rat) (tk : TK) (g : GridM) (rel : Rel) (hw : s.warm = none) :
    (result s rnd tk g rel).final =
      (s.setup g (tk.nsteps.toNat + 1) (rel.run 0 (tk.nsteps.toNat + 1)) rnd).env.coldRun tk.nsteps.toNat := by
  unfold result
  simp only [hw]

/-- the environment of the shifted set-up differs from the original's in the release table only -/
theorem setup_shift (s : Sim) (d : Int) (g : GridM) (nrun : Nat) (T T' : List (Int × List RRow)) (rnd : Rat → Rat) :
    (shift s d).setup g nrun T' rnd =
      { s.setup g nrun T rnd with releaseAt := fun n => ((T'.lookup n).getD []).map s.rowToRP } := rfl

/-- a ROMS environment whose released particles have their particle variables rewritten -/
theorem commutes_of_release (S : RomsSetup) (rel' : Int → List RP) (g : List (String × Val) → List (String × Val))
    (h : ∀ n, rel' n = (S.releaseAt n).map (mapPv g)) :
    Commutes S.env ({ S with releaseAt := rel' } : RomsSetup).env (mapPv g) where
  release := h
  force n p := force_mapPv S g n p
  move n p := move_mapPv S g n p
  ibm n p := ibm_mapPv S g n p
  due _ := rfl
  sparse := rfl
  alive _ := rfl
  pid _ _ := rfl

theorem lookup_map_rows (B : RRow → RRow) (k : Int) (l : List (Int × List RRow)) :
    (l.map (fun p => (p.1, p.2.map B))).lookup k = (l.lookup k).map (·.map B) :=
  lookup_map_snd (·.map B) k l

/-- the two runs, given how the decorated tables of the two releasers arise from the same
    undecorated table and how the released particles correspond -/
theorem core (s : Sim) (d : Int) (rnd : Rat → Rat) (hw : s.warm = none)
    (g : List (String × Val) → List (String × Val)) (A A' : RRow → RRow)
    (h5 : stage5 s.relCfg s.rows = (stage4 s.relCfg s.rows).map A)
    (h5' : stage5 (shiftCfg d s.relCfg) (s.rows.map (shiftRow d)) = (stage4 s.relCfg s.rows).map A')
    (hAt : ∀ x, (A x).time = x.time) (hAm : ∀ x, (A x).mult = x.mult)
    (hA't : ∀ x, (A' x).time = x.time + d) (hA'm : ∀ x, (A' x).mult = x.mult)
    (hF : ∀ x, s.rowToRP (A' x) = mapPv g (s.rowToRP (A x))) :
    Agree (fun a b => b.nsteps = a.nsteps ∧ b.final = mapState (mapPv g) a.final)
      (s.run rnd) ((shift s d).run rnd) := by
  rw [run_form, run_form]
  refine runWith_agree (TK.init (some s.start) (some s.stop) s.dt s.ref s.rev)
    (TK.init (some (s.start + d)) (some (s.stop + d)) s.dt (s.ref.map (· + d)) s.rev) (mkGrid s.file s.sub)
    (Rel.init s.relCfg s.rows) (Rel.init (shiftCfg d s.relCfg) (s.rows.map (shiftRow d)))
    (result s rnd) (result (shift s d) rnd) (fun a b => b.nsteps = a.nsteps) _
    (tk_shift s.start s.stop s.dt d s.ref s.rev) (init_shift s.relCfg s.rows d) ?_
  intro tk tk' gr rel rel' _ _ hns _ hrel hrel'
  have hn : tk'.nsteps.toNat = tk.nsteps.toNat := by rw [hns]
  refine ⟨by rw [result_nsteps, result_nsteps, hn], ?_⟩
  rw [result_final _ _ _ _ _ hw, result_final _ _ _ _ _ (show (shift s d).warm = none from hw), hn]
  have hT := run_decorated s.relCfg s.relCfg (stage4 s.relCfg s.rows) A 0 (by simpa using hAt) hAm (by simp)
    rel _ (by rw [← h5]; exact init_ok' _ _ _ hrel) 0 (tk.nsteps.toNat + 1)
  have hT' := run_decorated s.relCfg (shiftCfg d s.relCfg) (stage4 s.relCfg s.rows) A' d hA't hA'm
    (fun t => (C14.time_shift_invariant (tkOf s.relCfg) d t).1)
    rel' _ (by rw [← h5']; exact init_ok' _ _ _ hrel') 0 (tk.nsteps.toNat + 1)
  rw [setup_shift s d gr _ (rel.run 0 (tk.nsteps.toNat + 1)) (rel'.run 0 (tk.nsteps.toNat + 1)) rnd]
  apply coldRun_comm
  apply commutes_of_release
  intro n
  show (((rel'.run 0 (tk.nsteps.toNat + 1)).lookup n).getD []).map s.rowToRP =
    ((((rel.run 0 (tk.nsteps.toNat + 1)).lookup n).getD []).map s.rowToRP).map (mapPv g)
  rw [hT, hT', lookup_map_rows, lookup_map_rows, getD_map_nil, getD_map_nil, List.map_map, List.map_map,
    List.map_map]
  apply List.map_congr_left
  intro x _
  exact hF x

theorem stage5_shift (c : RelCfg) (d : Int) (rows : List RRow) :
    stage5 (shiftCfg d c) (rows.map (shiftRow d)) =
      if c.releaseTimeCol then ((stage4 c rows).map (shiftRow d)).map addc else (stage4 c rows).map (shiftRow d) := by
  unfold C14.stage5
  rw [C14.stage4_shift]
  rfl

theorem mapState_id (st : RState) : mapState (mapPv id) st = st := by
  have : mapPv id = id := rfl
  rw [this]
  simp [mapState]

/-- **shift_invariant** (cold start): the shifted set-up is refused exactly when the original
    is, with the same status; otherwise both run the same number of steps and every record, the
    final state and the call log agree, up to the shift of the particles' `release_time`.

    When `release_time` is a particle variable, the release table must not carry a column of that
    name itself (the releaser appends it; `lookup` would find the table's own, unshifted one) and
    `release_time` must not also be an instance variable of the state. -/
theorem shift_invariant (s : Sim) (d : Int) (rnd : Rat → Rat) (hw : s.warm = none)
    (hrows : s.pvNames.contains "release_time" = true → ∀ r ∈ s.rows, ∀ c ∈ r.cols, c.1 ≠ "release_time")
    (hiv : s.pvNames.contains "release_time" = true → ∀ p ∈ s.ivDefaults, p.1 ≠ "release_time") :
    match s.run rnd, (shift s d).run rnd with
    | .ok a, .ok b => b.nsteps = a.nsteps ∧
        b.final.records = a.final.records.map (fun (n, ps) => (n, ps.map (shiftRP d))) ∧
        b.final.parts = a.final.parts.map (shiftRP d) ∧
        b.final.npid = a.final.npid ∧ b.final.log = a.final.log
    | .error e, .error e' => e' = e
    | _, _ => False := by
  have h : Agree (fun a b => b.nsteps = a.nsteps ∧ b.final = mapState (shiftRP d) a.final)
      (s.run rnd) ((shift s d).run rnd) := by
    rw [shiftRP_eq]
    cases hrt : s.pvNames.contains "release_time" with
    | false =>
      have hc : s.relCfg.releaseTimeCol = false := hrt
      refine core s d rnd hw (shiftPv d) id (shiftRow d) ?_ ?_ (fun _ => rfl) (fun _ => rfl) (fun _ => rfl)
        (fun _ => rfl) (fun x => (shiftRP_rowToRP s hrt d x).symm)
      · simp [C14.stage5, hc]
      · rw [stage5_shift, hc]; rfl
    | true =>
      have hc : s.relCfg.releaseTimeCol = true := hrt
      have hclean : ∀ x ∈ stage4 s.relCfg s.rows, clean x = x :=
        fun x hx => clean_eq x (stage4_noRT s.relCfg s.rows (hrows hrt) x hx)
      refine core s d rnd hw (shiftPv d) (fun x => addc (clean x)) (fun x => addc (shiftRow d (clean x))) ?_ ?_
        (fun _ => rfl) (fun _ => rfl) (fun _ => rfl) (fun _ => rfl)
        (fun x => rowToRP_addc s (hiv hrt) d (clean x) (clean_noRT x))
      · simp only [C14.stage5, hc, if_true]
        apply List.map_congr_left
        intro x hx
        rw [hclean x hx]
      · rw [stage5_shift, hc, if_pos rfl, List.map_map]
        apply List.map_congr_left
        intro x hx
        simp only [Function.comp, hclean x hx]
  revert h
  cases s.run rnd <;> cases (shift s d).run rnd <;> intro h
  · exact h
  · exact h.elim
  · exact h.elim
  · obtain ⟨h1, h2⟩ := h
    refine ⟨h1, ?_, ?_, ?_, ?_⟩ <;> rw [h2] <;> rfl

/-- without a `release_time` particle variable the two runs are literally equal -/
theorem shift_invariant_plain (s : Sim) (d : Int) (rnd : Rat → Rat) (hw : s.warm = none)
    (hrt : s.pvNames.contains "release_time" = false) :
    match s.run rnd, (shift s d).run rnd with
    | .ok a, .ok b => b.nsteps = a.nsteps ∧ b.final = a.final
    | .error e, .error e' => e' = e
    | _, _ => False := by
  have hc : s.relCfg.releaseTimeCol = false := hrt
  have h := core s d rnd hw id id (shiftRow d) (by simp [C14.stage5, hc]) (by rw [stage5_shift, hc]; rfl)
    (fun _ => rfl) (fun _ => rfl) (fun _ => rfl) (fun _ => rfl) (fun _ => rfl)
  revert h
  cases s.run rnd <;> cases (shift s d).run rnd <;> intro h
  · exact h
  · exact h.elim
  · exact h.elim
  · obtain ⟨h1, h2⟩ := h
    exact ⟨h1, by rw [h2, mapState_id]⟩

end Ladim.SimShift
