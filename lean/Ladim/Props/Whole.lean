import Ladim.Model.RunRoms
import Ladim.Props.C08
import Ladim.Props.C09
import Ladim.Props.C14
import Ladim.Props.C17
import Ladim.Props.C19
/-
Composition: the run-level theorems (C06, C08, C14, C19) are stated for an arbitrary
environment under hypotheses (`Sane`, `ForceIdem`, `PidBlind`); the component theorems (C09,
C17) are stated for one particle and one step.  This file discharges the hypotheses for the
concrete environment `RomsSetup.env` — the one the correspondence check runs against whole
simulations — and lifts the per-particle invariants to every record of every run.
-/

namespace Ladim.Whole
open Ladim RunEnv RomsSetup

/-! ### `setVar` -/

/-- overwrite the value of one entry if its key is `nm` -/
def upd (nm : String) (v : Val) : String × Val → String × Val :=
  fun (k, x) => if k == nm then (k, v) else (k, x)

def hasKey (l : List (String × Val)) (nm : String) : Bool := l.any (·.1 == nm)

theorem setVar_eq (l : List (String × Val)) (nm : String) (v : Val) :
    setVar l nm v = if hasKey l nm then l.map (upd nm v) else l ++ [(nm, v)] := rfl

theorem upd_fst (nm : String) (v : Val) (e : String × Val) : (upd nm v e).1 = e.1 := by
  obtain ⟨k, x⟩ := e
  simp only [upd]
  split <;> rfl

theorem hasKey_map_upd (l : List (String × Val)) (nm k : String) (v : Val) :
    hasKey (l.map (upd nm v)) k = hasKey l k := by
  simp [hasKey, List.any_map, Function.comp_def, upd_fst]

theorem hasKey_setVar (l : List (String × Val)) (nm k : String) (v : Val) :
    hasKey (setVar l nm v) k = (hasKey l k || (nm == k)) := by
  rw [setVar_eq]
  split
  · rename_i h
    rw [hasKey_map_upd]
    by_cases hk : nm = k
    · subst hk; simp [h]
    · simp [hk]
  · simp [hasKey]

theorem upd_upd_same (nm : String) (v w : Val) (e : String × Val) :
    upd nm w (upd nm v e) = upd nm w e := by
  obtain ⟨k, x⟩ := e
  by_cases h : k = nm <;> simp [upd, h]

theorem upd_upd_comm (a b : String) (hab : a ≠ b) (v w : Val) (e : String × Val) :
    upd b w (upd a v e) = upd a v (upd b w e) := by
  obtain ⟨k, x⟩ := e
  by_cases h : k = a
  · subst h
    simp [upd, hab]
  · by_cases h' : k = b
    · subst h'
      simp [upd, h]
    · simp [upd, h, h']

theorem setVar_setVar_same (l : List (String × Val)) (nm : String) (v w : Val) (h : hasKey l nm = true) :
    setVar (setVar l nm v) nm w = setVar l nm w := by
  have h2 : hasKey (setVar l nm v) nm = true := by rw [hasKey_setVar, h]; rfl
  rw [setVar_eq (setVar l nm v), if_pos h2, setVar_eq, if_pos h, setVar_eq, if_pos h, List.map_map]
  apply List.map_congr_left
  intro e _
  exact upd_upd_same nm v w e

theorem setVar_comm (l : List (String × Val)) (a b : String) (hab : a ≠ b) (v w : Val)
    (h : hasKey l a = true) :
    setVar (setVar l a v) b w = setVar (setVar l b w) a v := by
  have ha2 : hasKey (setVar l b w) a = true := by rw [hasKey_setVar, h]; rfl
  have hb2 : hasKey (setVar l a v) b = hasKey l b := by
    rw [hasKey_setVar]
    simp [hab]
  rw [setVar_eq (setVar l a v), hb2, setVar_eq (setVar l b w), if_pos ha2, setVar_eq l a, if_pos h, setVar_eq l b]
  by_cases hb : hasKey l b = true
  · rw [if_pos hb, if_pos hb, List.map_map, List.map_map]
    apply List.map_congr_left
    intro e _
    exact upd_upd_comm a b hab v w e
  · rw [if_neg hb, if_neg hb, List.map_append]
    simp [upd, Ne.symm hab]

/-- the key is present and all its entries hold `v` -/
def Fixed (l : List (String × Val)) (nm : String) (v : Val) : Prop :=
  hasKey l nm = true ∧ ∀ e ∈ l, e.1 = nm → e.2 = v

theorem setVar_id (l : List (String × Val)) (nm : String) (v : Val) (h : Fixed l nm v) :
    setVar l nm v = l := by
  rw [setVar_eq, if_pos h.1]
  conv_rhs => rw [← List.map_id l]
  apply List.map_congr_left
  rintro ⟨k, x⟩ he
  by_cases hk : k = nm
  · have := h.2 _ he hk
    simp only at this
    simp [upd, hk, this]
  · simp [upd, hk]

theorem fixed_setVar (l : List (String × Val)) (nm : String) (v : Val) : Fixed (setVar l nm v) nm v := by
  refine ⟨by rw [hasKey_setVar]; simp, ?_⟩
  rw [setVar_eq]
  split
  · intro e he hk
    obtain ⟨⟨k, x⟩, _, rfl⟩ := List.mem_map.1 he
    by_cases h : k = nm
    · simp [upd, h]
    · simp [upd, h] at hk
  · rename_i hno
    intro e he hk
    rcases List.mem_append.1 he with h | h
    · exfalso
      apply hno
      simp only [hasKey, List.any_eq_true]
      exact ⟨e, h, by simp [hk]⟩
    · simp only [List.mem_singleton] at h
      subst h; rfl

theorem fixed_setVar_ne (l : List (String × Val)) (nm b : String) (hb : nm ≠ b) (v w : Val)
    (h : Fixed l nm v) : Fixed (setVar l b w) nm v := by
  refine ⟨by rw [hasKey_setVar, h.1]; rfl, ?_⟩
  rw [setVar_eq]
  split
  · intro e he hk
    obtain ⟨⟨k, x⟩, hm, rfl⟩ := List.mem_map.1 he
    have hk' : k = nm := by rw [upd_fst] at hk; exact hk
    subst hk'
    have := h.2 _ hm rfl
    simp only at this
    simp [upd, hb, this]
  · intro e he hk
    rcases List.mem_append.1 he with h' | h'
    · exact h.2 e h' hk
    · simp only [List.mem_singleton] at h'
      subst h'
      exact absurd hk.symm hb

/-! ### the forcing fold -/

/-- the fold of `force` on the variable list alone, with the values `c e` -/
def foldVars {α : Type} (c : String × α → Val) (L : List (String × α)) (vs : List (String × Val)) :
    List (String × Val) :=
  L.foldl (fun vs e => setVar vs e.1 (c e)) vs

theorem foldVars_cons {α : Type} (c : String × α → Val) (e : String × α) (L : List (String × α))
    (vs : List (String × Val)) : foldVars c (e :: L) vs = foldVars c L (setVar vs e.1 (c e)) := rfl

theorem hasKey_foldVars {α : Type} (c : String × α → Val) (L : List (String × α)) :
    ∀ (vs : List (String × Val)) (nm : String), hasKey vs nm = true → hasKey (foldVars c L vs) nm = true := by
  induction L with
  | nil => intro vs nm h; exact h
  | cons e L ih =>
    intro vs nm h
    rw [foldVars_cons]
    apply ih
    rw [hasKey_setVar, h]; rfl

theorem fixed_foldVars {α : Type} (c : String × α → Val) (L : List (String × α)) (nm : String) (v : Val)
    (hn : ∀ e ∈ L, e.1 ≠ nm) : ∀ vs, Fixed vs nm v → Fixed (foldVars c L vs) nm v := by
  induction L with
  | nil => intro vs h; exact h
  | cons e L ih =>
    intro vs h
    rw [foldVars_cons]
    apply ih (fun e' he' => hn e' (List.mem_cons_of_mem _ he'))
    exact fixed_setVar_ne vs nm e.1 (Ne.symm (hn e (List.mem_cons_self))) v (c e) h

/-- a `setVar` on a name the fold sets later is overwritten -/
theorem foldVars_absorb {α : Type} (c : String × α → Val) (L : List (String × α)) (nm : String)
    (hn : ∃ e ∈ L, e.1 = nm) : ∀ (vs : List (String × Val)) (v : Val), hasKey vs nm = true →
      foldVars c L (setVar vs nm v) = foldVars c L vs := by
  induction L with
  | nil => obtain ⟨e, he, _⟩ := hn; cases he
  | cons e L ih =>
    intro vs v hk
    rw [foldVars_cons, foldVars_cons]
    by_cases he : e.1 = nm
    · rw [he, setVar_setVar_same vs nm v (c e) hk]
    · have hn' : ∃ e' ∈ L, e'.1 = nm := by
        obtain ⟨e', he', h⟩ := hn
        rcases List.mem_cons.1 he' with rfl | h'
        · exact absurd h he
        · exact ⟨e', h', h⟩
      rw [setVar_comm vs nm e.1 (Ne.symm he) v (c e) hk]
      apply ih hn'
      rw [hasKey_setVar, hk]; rfl

/-- the fold is idempotent (the names need not be distinct) -/
theorem foldVars_idem {α : Type} (c : String × α → Val) (L : List (String × α)) :
    ∀ vs, foldVars c L (foldVars c L vs) = foldVars c L vs := by
  induction L with
  | nil => intro vs; rfl
  | cons e L ih =>
    intro vs
    rw [foldVars_cons, foldVars_cons]
    generalize hw : setVar vs e.1 (c e) = w
    have hfw : Fixed w e.1 (c e) := by rw [← hw]; exact fixed_setVar vs e.1 (c e)
    by_cases hin : ∃ e' ∈ L, e'.1 = e.1
    · rw [foldVars_absorb c L e.1 hin _ _ (hasKey_foldVars c L w e.1 hfw.1)]
      exact ih w
    · have hn : ∀ e' ∈ L, e'.1 ≠ e.1 := fun e' he' h => hin ⟨e', he', h⟩
      rw [setVar_id _ _ _ (fixed_foldVars c L e.1 (c e) hn w hfw)]
      exact ih w


/-- the value `force` gives a scalar variable at a position -/
def sval (s : RomsSetup) (n : Int) (x y z : Rat) (e : String × (Nat → Field3)) : Val :=
  match sampleScalar s.g (e.2 n.toNat) x y z with
  | some v => .num v
  | none => .nan

theorem force_fold (s : RomsSetup) (n : Int) (L : List (String × (Nat → Field3))) : ∀ q : RP,
    L.foldl (fun q (nm, seq) =>
      match sampleScalar s.g (seq n.toNat) q.x q.y q.z with
      | some v => { q with vars := setVar q.vars nm (.num v) }
      | none => { q with vars := setVar q.vars nm .nan }) q =
    { q with vars := foldVars (sval s n q.x q.y q.z) L q.vars } := by
  induction L with
  | nil => intro q; rfl
  | cons e L ih =>
    intro q
    obtain ⟨nm, seq⟩ := e
    rw [List.foldl_cons, ih, foldVars_cons]
    simp only [sval]
    cases sampleScalar s.g (seq n.toNat) q.x q.y q.z <;> rfl

/-- `force` only rewrites `vars`, with values that depend on the position only -/
theorem force_eq (s : RomsSetup) (n : Int) (p : RP) :
    s.force n p = { p with vars := foldVars (sval s n p.x p.y p.z) s.scalars p.vars } :=
  force_fold s n s.scalars p

theorem move_cases (s : RomsSetup) (n : Int) (p : RP) :
    (∃ q, trackerStep s.cfg s.g (s.oracle n p.x p.y p.z) 0 0 0 (s.sign * valRat (lookupVar p.vars "w"))
        { x := p.x, y := p.y, z := p.z, alive := p.alive, active := p.active } = some q ∧
      s.move n p = { p with x := s.rnd q.x, y := s.rnd q.y, z := s.rnd q.z, alive := q.alive, active := q.active }) ∨
    s.move n p = { p with vars := setVar p.vars "__oob__" (.num 1) } := by
  unfold RomsSetup.move
  simp only []
  cases h : trackerStep s.cfg s.g (s.oracle n p.x p.y p.z) 0 0 0 (s.sign * valRat (lookupVar p.vars "w"))
        { x := p.x, y := p.y, z := p.z, alive := p.alive, active := p.active } with
  | none => right; rfl
  | some q => left; exact ⟨q, rfl, rfl⟩

theorem ibm_cases (s : RomsSetup) (n : Int) (p : RP) :
    ∃ vs a, s.ibm n p = { p with vars := vs, alive := a } ∧ (p.alive = false → a = false) := by
  unfold RomsSetup.ibm
  simp only []
  by_cases ha : s.ageing = true <;> by_cases hk : (s.kills n).contains p.pid = true
  · simp only [ha, hk, if_true]; exact ⟨_, false, rfl, fun _ => rfl⟩
  · simp only [ha, hk, if_true]; exact ⟨_, p.alive, rfl, id⟩
  · simp only [ha, hk, if_true]; exact ⟨p.vars, false, rfl, fun _ => rfl⟩
  · simp only [ha, hk]; exact ⟨p.vars, p.alive, rfl, id⟩

theorem move_dead (s : RomsSetup) (n : Int) (p : RP) (h : p.alive = false) : (s.move n p).alive = false := by
  rcases move_cases s n p with ⟨q, hq, he⟩ | he
  · rw [he]
    exact C09.dead_stay_dead _ _ _ _ _ _ _ _ q h hq
  · rw [he]; exact h

theorem move_pid (s : RomsSetup) (n : Int) (p : RP) : (s.move n p).pid = p.pid := by
  rcases move_cases s n p with ⟨q, _, he⟩ | he <;> rw [he]

theorem ibm_dead (s : RomsSetup) (n : Int) (p : RP) (h : p.alive = false) : (s.ibm n p).alive = false := by
  obtain ⟨vs, a, he, ha⟩ := ibm_cases s n p
  rw [he]; exact ha h

theorem ibm_pid (s : RomsSetup) (n : Int) (p : RP) : (s.ibm n p).pid = p.pid := by
  obtain ⟨vs, a, he, -⟩ := ibm_cases s n p
  rw [he]

/-- the ROMS environment never revives a particle, never touches a pid, and its forcing step
    does not change `alive` -/
theorem env_sane (s : RomsSetup) : C14.Sane s.env where
  force_alive n p := by show (s.force n p).alive = p.alive; rw [force_eq]
  move_dead n p h := move_dead s n p h
  ibm_dead n p h := ibm_dead s n p h
  force_pid n p := by show (s.force n p).pid = p.pid; rw [force_eq]
  move_pid n p := move_pid s n p
  ibm_pid n p := ibm_pid s n p

theorem env_sane19 (s : RomsSetup) : C19.Sane s.env where
  force_dead n p h := by rw [(env_sane s).force_alive]; exact h
  move_dead := (env_sane s).move_dead
  ibm_dead := (env_sane s).ibm_dead
  force_pid := (env_sane s).force_pid
  move_pid := (env_sane s).move_pid
  ibm_pid := (env_sane s).ibm_pid
  force_alive := (env_sane s).force_alive

/-- forcing-derived variables are a function of the particle's position: forcing twice is
    forcing once (the hypothesis of `C08.restart_transparent`) -/
theorem env_forceIdem (s : RomsSetup) : C08.ForceIdem s.env := by
  intro n p
  show s.force n (s.force n p) = s.force n p
  rw [force_eq s n p, force_eq]
  simp only [foldVars_idem]

/-- an IBM that does not kill by pid makes the environment blind to the numbering
    (the hypothesis of `C14.subset_invariant` / `permutation_invariant`) -/
theorem env_pidBlind (s : RomsSetup) (hk : ∀ n, s.kills n = []) : C14.PidBlind s.env where
  force n p i := by
    show s.force n { p with pid := i } = { s.force n p with pid := i }
    rw [force_eq, force_eq]
  move n p i := by
    show s.move n { p with pid := i } = { s.move n p with pid := i }
    unfold RomsSetup.move
    simp only []
    cases trackerStep s.cfg s.g (s.oracle n p.x p.y p.z) 0 0 0 (s.sign * valRat (lookupVar p.vars "w"))
        { x := p.x, y := p.y, z := p.z, alive := p.alive, active := p.active } <;> rfl
  ibm n p i := by
    show s.ibm n { p with pid := i } = { s.ibm n p with pid := i }
    unfold RomsSetup.ibm
    simp only [hk, List.contains_nil]
    cases s.ageing <;> rfl

/-- a property of particles that release establishes and that forcing, tracker and IBM each
    preserve holds for every particle of every specified record -/
theorem specRecord_all (env : RunEnv) (P : RP → Prop)
    (hrel : ∀ k p i, p ∈ env.release k → P { p with pid := i })
    (hf : ∀ n p, P p → P (env.force n p)) (hm : ∀ n p, P p → P (env.move n p))
    (hi : ∀ n p, P p → P (env.ibm n p)) (n : Nat) : ∀ p ∈ specRecord env n, P p := by
  have hadv : ∀ (k : Int) (p : RP) (m : Nat), P p → P (advance env k p m) := by
    intro k p m hp
    induction m with
    | zero => exact hf k p hp
    | succ m ih => exact hf _ _ (hi _ _ (hm _ _ ih))
  intro p hp
  unfold specRecord at hp
  obtain ⟨q, hq, rfl⟩ := List.mem_map.1 (List.mem_filter.1 hp).1
  obtain ⟨⟨k, r⟩, i⟩ := q
  have hmem : (k, r) ∈ releasedUpTo env n := List.fst_mem_of_mem_zipIdx hq
  unfold releasedUpTo at hmem
  obtain ⟨j, -, hj⟩ := List.mem_flatMap.1 hmem
  obtain ⟨r', hr', he⟩ := List.mem_map.1 hj
  cases he
  exact hadv _ _ _ (hrel _ _ _ hr')


/-- the position of a particle is valid: strictly inside the valid region, in a sea cell -/
def ValidRP (s : RomsSetup) (p : RP) : Prop := C09.Valid s.g p.x p.y

/-- **C09 at the run grain**: if every release position is in a sea cell of the valid region
    (and coordinates are not rounded), every particle of every record of every cold run — sparse
    layout, any forcing fields, any scheme, any kills — is in a sea cell of the valid region. -/
theorem records_valid (s : RomsSetup) (hr : s.rnd = id) (hsp : s.sparse = true)
    (hrel : ∀ k p, p ∈ s.releaseAt k → C09.Valid s.g p.x p.y)
    (N n : Nat) (hn : n < N) (hdue : s.env.due n = true) (parts : List RP)
    (hrec : ((n : Int), parts) ∈ (s.env.coldRun N).records) :
    ∀ p ∈ parts, ValidRP s p := by
  have hspec := (C14.run_refines_spec s.env (env_sane s) hsp N n hn hdue).2 parts hrec
  rw [hspec]
  apply specRecord_all s.env (ValidRP s)
  · intro k p i hp
    exact hrel k p hp
  · intro k p hp
    show ValidRP s (s.force k p)
    rw [force_eq]; exact hp
  · intro k p hp
    show ValidRP s (s.move k p)
    rcases move_cases s k p with ⟨q, hq, he⟩ | he
    · rw [he]
      obtain ⟨p1, hp1, hx, hy, -, -⟩ := C09.trackerStep_cases _ _ _ _ _ _ _ _ q hq
      have := C09.valid_preserved _ _ _ _ _ _ p1 (show C09.Valid s.g
        ({ x := p.x, y := p.y, z := p.z, alive := p.alive, active := p.active } : Part).x
        ({ x := p.x, y := p.y, z := p.z, alive := p.alive, active := p.active } : Part).y from hp) hp1
      show C09.Valid s.g (s.rnd q.x) (s.rnd q.y)
      rw [hr, hx, hy]
      exact this
    · rw [he]; exact hp
  · intro k p hp
    show ValidRP s (s.ibm k p)
    obtain ⟨vs, a, he, -⟩ := ibm_cases s k p
    rw [he]; exact hp

/-- the shape of a sum of two equally shaped arrays -/
theorem addScaled_shape (A B : Field3) (c : Rat) (n r cl : Int) (hA : C17.Shape3 A n r cl) (hB : C17.Shape3 B n r cl) :
    C17.Shape3 (addScaled A B c) n r cl := by
  refine ⟨?_, ?_, ?_⟩
  · have h1 := hA.levels
    have h2 := hB.levels
    simp only [addScaled, List.length_map, List.length_zip]
    omega
  · intro P hP
    simp only [addScaled, List.mem_map] at hP
    obtain ⟨⟨P1, P2⟩, hz, rfl⟩ := hP
    obtain ⟨m1, m2⟩ := List.of_mem_zip hz
    have h1 := hA.rws P1 m1
    have h2 := hB.rws P2 m2
    simp only [List.length_map, List.length_zip]
    omega
  · intro P hP row hrow
    simp only [addScaled, List.mem_map] at hP
    obtain ⟨⟨P1, P2⟩, hz, rfl⟩ := hP
    obtain ⟨m1, m2⟩ := List.of_mem_zip hz
    simp only [List.mem_map] at hrow
    obtain ⟨⟨r1, r2⟩, hz2, rfl⟩ := hrow
    obtain ⟨k1, k2⟩ := List.of_mem_zip hz2
    have h1 := hA.cls P1 m1 r1 k1
    have h2 := hB.cls P2 m2 r2 k2
    simp only [List.length_map, List.length_zip]
    omega

/-- the running velocity arrays at a fraction of step `n` -/
def runU (s : RomsSetup) (n : Int) (frac : Rat) : Field3 :=
  if frac < 1/1000 then (s.fieldU n.toNat).1 else addScaled (s.fieldU n.toNat).1 (s.fieldU n.toNat).2 frac

def runV (s : RomsSetup) (n : Int) (frac : Rat) : Field3 :=
  if frac < 1/1000 then (s.fieldV n.toNat).1 else addScaled (s.fieldV n.toNat).1 (s.fieldV n.toNat).2 frac

theorem oracle_eq (s : RomsSetup) (n : Int) (x0 y0 z0 : Rat) :
    s.oracle n x0 y0 z0 = fun frac x y => sampleVel s.g (runU s n frac) (runV s n frac) s.sign x0 y0 z0 x y := rfl


/-- `moveH` has a result when the start position is in the valid region, the metric and the
    scheme's velocities are there, and the mask is read inside at every position of the valid region -/
theorem moveH_some (cfg : TrkCfg) (g : GridM) (vel : VelOracle) (du dv : Rat) (p : Part)
    (hin : g.ingrid p.x p.y = true)
    (hm : ∃ dx, g.metric p.x p.y = some dx)
    (ha : ∀ hx hy, ∃ uv, advect cfg.scheme g vel p.x p.y hx hy = some uv)
    (hsea : ∀ x y, g.ingrid x y = true → ∃ c, g.atsea x y = some c) :
    ∃ q, moveH cfg g vel du dv p = some q := by
  obtain ⟨dx, hdx⟩ := hm
  obtain ⟨⟨ua, va⟩, hadv⟩ := ha (cfg.dt / dx) (cfg.dt / dx)
  simp only [moveH, hdx, hadv, Option.bind_eq_bind, Option.bind_some]
  by_cases hact : (p.active && !!g.ingrid (p.x + (ua + du) * cfg.dt / dx) (p.y + (va + dv) * cfg.dt / dx)) = true
  · have hin1 : g.ingrid (p.x + (ua + du) * cfg.dt / dx) (p.y + (va + dv) * cfg.dt / dx) = true := by
      simp only [Bool.and_eq_true, Bool.not_not] at hact
      exact hact.2
    obtain ⟨c, hc⟩ := hsea _ _ hin1
    simp only [if_pos hact, hc, Option.bind_some, Option.pure_def]
    exact ⟨_, rfl⟩
  · obtain ⟨c, hc⟩ := hsea _ _ hin
    simp only [if_neg hact, hc, Option.bind_some, Option.pure_def]
    exact ⟨_, rfl⟩

theorem moveV_some (cfg : TrkCfg) (g : GridM) (wdiff wadv x0 y0 z : Rat) (hd : ∃ h, g.depth x0 y0 = some h) :
    ∃ z', moveV cfg g wdiff wadv x0 y0 z = some z' := by
  obtain ⟨h, hh⟩ := hd
  unfold moveV
  split
  · simp only [hh, Option.bind_eq_bind, Option.bind_some, Option.pure_def]
    exact ⟨_, rfl⟩
  · exact ⟨_, rfl⟩

/-- **C17 at the run grain**: with well-shaped arrays (`N ≥ 2` levels) the tracker of the ROMS
    environment never takes the out-of-range branch for a particle at a valid position: `move`
    is `trackerStep` with a result (the `__oob__` flag is never set). -/
theorem move_in_bounds (s : RomsSetup) (N : Int) (hc : C17.ColumnsOK s.g N)
    (hH : C17.Shape2 s.g.H (s.g.j1 - s.g.j0) (s.g.i1 - s.g.i0)) (hM : C17.Shape2 s.g.M (s.g.j1 - s.g.j0) (s.g.i1 - s.g.i0))
    (hd : C17.Shape2 s.g.dx (s.g.j1 - s.g.j0) (s.g.i1 - s.g.i0))
    (hU : ∀ k, C17.Shape3 (s.fieldU k).1 N (s.g.j1 - s.g.j0) (s.g.i1 - s.g.i0 + 1) ∧
               C17.Shape3 (s.fieldU k).2 N (s.g.j1 - s.g.j0) (s.g.i1 - s.g.i0 + 1))
    (hV : ∀ k, C17.Shape3 (s.fieldV k).1 N (s.g.j1 - s.g.j0 + 1) (s.g.i1 - s.g.i0) ∧
               C17.Shape3 (s.fieldV k).2 N (s.g.j1 - s.g.j0 + 1) (s.g.i1 - s.g.i0))
    (n : Int) (p : RP) (hv : C09.Valid s.g p.x p.y) :
    ∃ q, trackerStep s.cfg s.g (s.oracle n p.x p.y p.z) 0 0 0 (s.sign * valRat (lookupVar p.vars "w"))
      { x := p.x, y := p.y, z := p.z, alive := p.alive, active := p.active } = some q := by
  have hin : s.g.ingrid p.x p.y = true := hv.1
  obtain ⟨hmet, hdep, -⟩ := C17.metric_depth_mask_in_bounds s.g hH hM hd p.x p.y hin
  have hUs : ∀ fr, C17.Shape3 (runU s n fr) N (s.g.j1 - s.g.j0) (s.g.i1 - s.g.i0 + 1) := by
    intro fr
    unfold runU
    split
    · exact (hU _).1
    · exact addScaled_shape _ _ _ _ _ _ (hU _).1 (hU _).2
  have hVs : ∀ fr, C17.Shape3 (runV s n fr) N (s.g.j1 - s.g.j0 + 1) (s.g.i1 - s.g.i0) := by
    intro fr
    unfold runV
    split
    · exact (hV _).1
    · exact addScaled_shape _ _ _ _ _ _ (hV _).1 (hV _).2
  obtain ⟨p1, hp1⟩ := moveH_some s.cfg s.g (s.oracle n p.x p.y p.z) 0 0
    { x := p.x, y := p.y, z := p.z, alive := p.alive, active := p.active } hin hmet
    (fun hx hy => by
      rw [oracle_eq]
      exact C17.advect_in_bounds s.cfg.scheme s.g (runU s n) (runV s n) N hc hUs hVs s.sign p.x p.y p.z hx hy hin)
    (fun x y h => (C17.metric_depth_mask_in_bounds s.g hH hM hd x y h).2.2)
  obtain ⟨z', hz'⟩ := moveV_some s.cfg s.g 0 (s.sign * valRat (lookupVar p.vars "w")) p.x p.y p.z hdep
  simp only [trackerStep, hp1, hz', Option.bind_eq_bind, Option.bind_some, Option.pure_def]
  exact ⟨_, rfl⟩

/-- **C14 + C08 for the ROMS environment**: records are the per-particle specification, and a
    restart from any output step continues the run exactly (pid counter restored). -/
theorem roms_refines_spec (s : RomsSetup) (hsp : s.sparse = true) (N n : Nat) (hn : n < N)
    (hdue : s.env.due n = true) : ((n : Int), specRecord s.env n) ∈ (s.env.coldRun N).records :=
  (C14.run_refines_spec s.env (env_sane s) hsp N n hn hdue).1

theorem roms_restart_transparent (s : RomsSetup) (hsp : s.sparse = true) (N r : Nat) (hr : r < N)
    (hdue : s.env.due r = true) :
    (warmRun (C08.shiftEnv s.env r) (N - r) (specRecord s.env r) (C08.npidAt s.env r)).records =
      ((s.env.coldRun N).records.filter (fun x => decide ((r : Int) < x.1))).map (fun x => (x.1 - (r : Int), x.2)) :=
  C08.restart_transparent s.env (env_sane s) (env_forceIdem s) hsp N r hr hdue

end Ladim.Whole
