import Ladim.Model.Output
import Mathlib.Tactic.Linarith
import Mathlib.Data.List.Basic
import Mathlib.Data.List.Induction
/-
C06 — output records are faithful snapshots in a well-formed ragged or dense file.
Property theorems about `Ladim.Model.Output` (`Output.write`, `write_particle_variables`),
for every history of snapshots handed to the writer (the snapshot of a record is the model
state at its time: `Ladim.C19.record_state_is_post_forcing`, `Ladim.C14.run_refines_spec`).

Library assumption (trusted): netCDF unlimited dimensions grow on write and read back the fill
value where nothing was written.
-/

namespace Ladim.C06
open Ladim Out

/-- a snapshot is well-shaped: every requested column is as long as the pid column, `alive` too,
    and the column names are the same throughout the run -/
structure SnapOK (names : List String) (s : Snapshot) : Prop where
  cols_names : s.cols.map (·.1) = names
  cols_len : ∀ c ∈ s.cols, c.2.length = s.pid.length
  alive_len : s.alive.length = s.pid.length

/-- fold of `write` over a list of snapshots -/
def writes (o : Out) : List Snapshot → Except Refusal Out
  | [] => .ok o
  | s :: rest => match o.write s with
    | .ok o' => writes o' rest
    | .error e => .error e

/-- all records of a list of files, retrieved the documented way (`start = Σ count[:n]`) -/
def allRecords (fs : List VFile) : List (Rat × List Nat × List (String × Column)) :=
  fs.flatMap (fun f => (List.range f.time.length).filterMap f.record)

/-! ### `write`, restated -/

/-- the record appended to the current file by `write` -/
def addRec (l : Layout) (f : VFile) (s : Snapshot) : VFile :=
  match l with
  | .sparse =>
    { f with time := f.time ++ [s.time], count := f.count ++ [s.pid.length],
             pid := f.pid ++ s.pid, inst := appendCols f.inst s.cols }
  | .dense =>
    { f with time := f.time ++ [s.time],
             dense := f.dense ++ [s.cols.map (fun (n, c) =>
                (n, (c.zip s.alive).map (fun (v, a) => if a then some v else none)))] }

def finFile (f : VFile) (s : Snapshot) : VFile :=
  { f with pvarN := some s.npid,
           pvars := s.pvars.map (fun (n, c) => (n, c.take s.npid)), closed := true }

def licOf (o : Out) (s : Snapshot) : Nat :=
  match o.layout with
  | .sparse => o.localInstanceCount + s.pid.length
  | .dense => o.localInstanceCount

theorem write_eq (o : Out) (s : Snapshot) : o.write s =
    if o.cur.closed then .error .runtimeError else
    if o.localRecordCount + 1 = o.localNumRecords then
      if o.recordCount + 1 < o.numRecords then
        if o.multifile then
          .ok { o with recordCount := o.recordCount + 1, localRecordCount := 0,
                       localInstanceCount := 0,
                       localNumRecords := localNum o.numrec o.numRecords (o.recordCount + 1),
                       cur := emptyFile (genName o.stem o.suffix o.fileNo),
                       fileNo := o.fileNo + 1,
                       done := o.done ++ [finFile (addRec o.layout o.cur s) s] }
        else .error .other
      else
        .ok { o with recordCount := o.recordCount + 1,
                     localRecordCount := o.localRecordCount + 1,
                     localInstanceCount := licOf o s,
                     cur := finFile (addRec o.layout o.cur s) s }
    else
      .ok { o with recordCount := o.recordCount + 1,
                   localRecordCount := o.localRecordCount + 1,
                   localInstanceCount := licOf o s,
                   cur := addRec o.layout o.cur s } := rfl

/-- the three ways a `write` can succeed -/
theorem write_cases (o : Out) (s : Snapshot) (o' : Out) (hw : o.write s = .ok o') :
    o.cur.closed = false ∧ o'.layout = o.layout ∧
    ((o.localRecordCount + 1 ≠ o.localNumRecords ∧
        o'.cur = addRec o.layout o.cur s ∧ o'.done = o.done) ∨
     (o.localRecordCount + 1 = o.localNumRecords ∧
        o'.cur = finFile (addRec o.layout o.cur s) s ∧ o'.done = o.done) ∨
     (o.localRecordCount + 1 = o.localNumRecords ∧
        (∃ nm, o'.cur = emptyFile nm) ∧
        o'.done = o.done ++ [finFile (addRec o.layout o.cur s) s])) := by
  rw [write_eq] at hw
  cases hc : o.cur.closed with
  | true => simp [hc] at hw
  | false =>
    simp only [hc, Bool.false_eq_true, if_false] at hw
    by_cases hfill : o.localRecordCount + 1 = o.localNumRecords
    · rw [if_pos hfill] at hw
      by_cases hmore : o.recordCount + 1 < o.numRecords
      · rw [if_pos hmore] at hw
        cases hmf : o.multifile with
        | false => simp [hmf] at hw
        | true =>
          simp only [hmf, if_true] at hw
          obtain rfl := Except.ok.inj hw
          exact ⟨rfl, rfl, Or.inr (Or.inr ⟨hfill, ⟨_, rfl⟩, rfl⟩)⟩
      · rw [if_neg hmore] at hw
        obtain rfl := Except.ok.inj hw
        exact ⟨rfl, rfl, Or.inr (Or.inl ⟨hfill, rfl, rfl⟩)⟩
    · rw [if_neg hfill] at hw
      obtain rfl := Except.ok.inj hw
      exact ⟨rfl, rfl, Or.inl ⟨hfill, rfl, rfl⟩⟩

/-! ### slices of concatenations -/

/-- in `g s₀ ++ g s₁ ++ …`, the slice starting at `Σ_{i<n} c sᵢ` of length `c sₙ` is `g sₙ` -/
theorem slice_flatMap {α β : Type} (g : β → List α) (c : β → Nat) :
    ∀ (S : List β), (∀ s ∈ S, (g s).length = c s) → ∀ (n : Nat) (hn : n < S.length),
    ((S.flatMap g).drop ((S.map c).take n).sum).take (c S[n]) = g S[n] := by
  intro S
  induction S with
  | nil => intro _ n hn; simp at hn
  | cons s S ih =>
    intro hg n hn
    have hs : (g s).length = c s := hg s (by simp)
    cases n with
    | zero =>
      simp only [List.flatMap_cons, List.take_zero, List.sum_nil, List.drop_zero,
        List.getElem_cons_zero]
      rw [← hs, List.take_left']
      rfl
    | succ n =>
      simp only [List.flatMap_cons, List.map_cons, List.take_succ_cons, List.sum_cons,
        List.getElem_cons_succ]
      rw [← hs, List.drop_length_add_append]
      exact ih (fun x hx => hg x (by simp [hx])) n (by simpa using hn)

theorem filterMap_range_eq {β γ : Type} (r : β → γ) (g : Nat → Option γ) (S : List β) :
    (∀ n (hn : n < S.length), g n = some (r S[n])) →
    (List.range S.length).filterMap g = S.map r := by
  induction S using List.reverseRecOn with
  | nil => intro _; rfl
  | append_singleton S a ih =>
    intro h
    rw [List.length_append, List.length_singleton, List.range_succ, List.filterMap_append,
      List.map_append]
    congr 1
    · apply ih
      intro n hn
      have := h n (by simp; omega)
      rw [this, List.getElem_append_left hn]
    · have := h S.length (by simp)
      simp [this]

/-! ### columns by name -/

/-- the column named `nm` of a snapshot -/
def colOf (nm : String) (s : Snapshot) : Column := (PState.lookup s.cols nm).getD []

def recOf (s : Snapshot) : Rat × List Nat × List (String × Column) := (s.time, s.pid, s.cols)

theorem map_lookup (cols : List (String × Column)) (hnd : (cols.map (·.1)).Nodup) :
    (cols.map (·.1)).map (fun nm => (nm, (PState.lookup cols nm).getD [])) = cols := by
  induction cols with
  | nil => rfl
  | cons x t ih =>
    obtain ⟨n, c⟩ := x
    simp only [List.map_cons, List.nodup_cons] at hnd ⊢
    obtain ⟨hn, hnd⟩ := hnd
    congr 1
    · simp [PState.lookup]
    · conv_rhs => rw [← ih hnd]
      apply List.map_congr_left
      intro nm hnm
      have : n ≠ nm := fun e => hn (e ▸ hnm)
      simp [PState.lookup, this]

theorem cols_eq (names : List String) (hnd : names.Nodup) (s : Snapshot) (hs : SnapOK names s) :
    s.cols = names.map (fun nm => (nm, colOf nm s)) := by
  have := map_lookup s.cols (by rw [hs.cols_names]; exact hnd)
  rw [hs.cols_names] at this
  exact this.symm

theorem colOf_len (names : List String) (s : Snapshot) (hs : SnapOK names s) (nm : String)
    (hnm : nm ∈ names) : (colOf nm s).length = s.pid.length := by
  unfold colOf PState.lookup
  cases h : s.cols.find? (·.1 == nm) with
  | none =>
    exfalso
    rw [← hs.cols_names, List.mem_map] at hnm
    obtain ⟨x, hx, rfl⟩ := hnm
    have := List.find?_eq_none.1 h x hx
    simp at this
  | some x =>
    simp only [Option.map_some, Option.getD_some]
    exact hs.cols_len x (List.mem_of_find?_eq_some h)

theorem appendCols_ne (a b : List (String × Column)) (ha : a ≠ []) :
    appendCols a b = a.map (fun x => (x.1, x.2 ++ (PState.lookup b x.1).getD [])) := by
  cases a with
  | nil => exact absurd rfl ha
  | cons x t => rfl

/-! ### the content of a sparse file -/

/-- a sparse file holding exactly the snapshots `S` -/
structure FileOK (names : List String) (f : VFile) (S : List Snapshot) : Prop where
  ok : ∀ s ∈ S, SnapOK names s
  time : f.time = S.map (·.time)
  count : f.count = S.map (·.pid.length)
  pid : f.pid = S.flatMap (·.pid)
  inst_nil : S = [] → f.inst = []
  inst_cons : S ≠ [] → f.inst = names.map (fun nm => (nm, S.flatMap (colOf nm)))

/-- counts sum to the length of every instance array -/
def Good (f : VFile) : Prop :=
  f.count.foldl (· + ·) 0 = f.pid.length ∧ ∀ c ∈ f.inst, c.2.length = f.pid.length

/-- the records of one file -/
def recs (f : VFile) : List (Rat × List Nat × List (String × Column)) :=
  (List.range f.time.length).filterMap f.record

theorem allRecords_append (fs : List VFile) (f : VFile) :
    allRecords (fs ++ [f]) = allRecords fs ++ recs f := by
  simp [allRecords, recs, List.flatMap_append]

theorem fileOK_empty (names : List String) (f : VFile) (h1 : f.time = []) (h2 : f.count = [])
    (h3 : f.pid = []) (h4 : f.inst = []) : FileOK names f [] :=
  { ok := by simp, time := h1, count := h2, pid := h3, inst_nil := fun _ => h4,
    inst_cons := fun h => absurd rfl h }

theorem fileOK_fin (names : List String) (f : VFile) (S : List Snapshot) (s : Snapshot)
    (h : FileOK names f S) : FileOK names (finFile f s) S :=
  { ok := h.ok, time := h.time, count := h.count, pid := h.pid, inst_nil := h.inst_nil,
    inst_cons := h.inst_cons }

theorem fileOK_addRec (names : List String) (hnd : names.Nodup) (f : VFile) (S : List Snapshot)
    (s : Snapshot) (h : FileOK names f S) (hs : SnapOK names s) :
    FileOK names (addRec .sparse f s) (S ++ [s]) where
  ok := by
    intro x hx
    rcases List.mem_append.1 hx with hx | hx
    · exact h.ok x hx
    · simp only [List.mem_singleton] at hx
      subst hx
      exact hs
  time := by simp [addRec, h.time]
  count := by simp [addRec, h.count]
  pid := by simp [addRec, h.pid, List.flatMap_append]
  inst_nil := by intro e; simp at e
  inst_cons := by
    intro _
    show appendCols f.inst s.cols = _
    have hcols := cols_eq names hnd s hs
    by_cases hS : S = []
    · rw [h.inst_nil hS]
      subst hS
      simp [appendCols, hcols]
    · rw [h.inst_cons hS]
      by_cases hn : names = []
      · subst hn
        simp [appendCols, hcols]
      · rw [appendCols_ne _ _ (by simpa using hn)]
        simp [List.map_map, List.flatMap_append, colOf, Function.comp_def]

theorem record_of_fileOK (names : List String) (hnd : names.Nodup) (f : VFile)
    (S : List Snapshot) (h : FileOK names f S) (n : Nat) (hn : n < S.length) :
    f.record n = some (recOf S[n]) := by
  have hS : S ≠ [] := by intro e; subst e; simp at hn
  have ht : f.time[n]? = some (S[n].time) := by rw [h.time]; simp [hn]
  have hc : f.count[n]? = some (S[n].pid.length) := by rw [h.count]; simp [hn]
  have hstart : (f.count.take n).foldl (· + ·) 0 = ((S.map (·.pid.length)).take n).sum := by
    rw [h.count, List.sum_eq_foldl]
  have hpid : (f.pid.drop (((S.map (·.pid.length)).take n).sum)).take (S[n].pid.length)
      = S[n].pid := by
    rw [h.pid]
    exact slice_flatMap (·.pid) (·.pid.length) S (fun _ _ => rfl) n hn
  have hinst : f.inst.map (fun (x : String × Column) =>
      (x.1, (x.2.drop (((S.map (·.pid.length)).take n).sum)).take (S[n].pid.length)))
      = S[n].cols := by
    rw [h.inst_cons hS, cols_eq names hnd S[n] (h.ok _ (List.getElem_mem hn)), List.map_map]
    apply List.map_congr_left
    intro nm hnm
    simp only [Function.comp_def]
    congr 1
    exact slice_flatMap (colOf nm) (·.pid.length) S
      (fun s hs => colOf_len names s (h.ok s hs) nm hnm) n hn
  unfold VFile.record
  rw [ht, hc]
  simp only [hstart, hpid]
  rw [hinst]
  rfl

theorem recs_of_fileOK (names : List String) (hnd : names.Nodup) (f : VFile)
    (S : List Snapshot) (h : FileOK names f S) : recs f = S.map recOf := by
  have : f.time.length = S.length := by rw [h.time, List.length_map]
  rw [recs, this]
  exact filterMap_range_eq recOf f.record S (record_of_fileOK names hnd f S h)

theorem good_of_fileOK (names : List String) (f : VFile) (S : List Snapshot)
    (h : FileOK names f S) : Good f := by
  have hsum : ∀ (g : Snapshot → List Val), (∀ s ∈ S, (g s).length = s.pid.length) →
      (S.flatMap g).length = (S.map (·.pid.length)).sum := by
    intro g hg
    rw [List.length_flatMap]
    congr 1
    apply List.map_congr_left
    intro s hs
    exact hg s hs
  have hpid : f.pid.length = (S.map (·.pid.length)).sum := by
    rw [h.pid, List.length_flatMap]
  refine ⟨?_, ?_⟩
  · rw [← List.sum_eq_foldl, h.count, hpid]
  · intro c hc
    by_cases hS : S = []
    · rw [h.inst_nil hS] at hc; simp at hc
    · rw [h.inst_cons hS, List.mem_map] at hc
      obtain ⟨nm, hnm, rfl⟩ := hc
      rw [hpid]
      exact hsum (colOf nm) (fun s hs => colOf_len names s (h.ok s hs) nm hnm)

/-! ### the invariant of a sequence of writes -/

structure Inv (names : List String) (o : Out) (W : List Snapshot) : Prop where
  layout : o.layout = .sparse
  ex : ∃ Wd Wc, W = Wd ++ Wc ∧ FileOK names o.cur Wc ∧
    allRecords o.done = Wd.map recOf ∧ ∀ f ∈ o.done, Good f

theorem write_inv (names : List String) (hnd : names.Nodup) (o : Out) (W : List Snapshot)
    (s : Snapshot) (o' : Out) (hI : Inv names o W) (hs : SnapOK names s)
    (hw : o.write s = .ok o') : Inv names o' (W ++ [s]) := by
  obtain ⟨Wd, Wc, hW, hcur, hdone, hgood⟩ := hI.ex
  obtain ⟨-, hl, hcases⟩ := write_cases o s o' hw
  have hadd := fileOK_addRec names hnd o.cur Wc s hcur hs
  rw [hI.layout] at hcases
  refine ⟨hl.trans hI.layout, ?_⟩
  rcases hcases with ⟨-, h1, h2⟩ | ⟨-, h1, h2⟩ | ⟨-, ⟨nm, h1⟩, h2⟩
  · refine ⟨Wd, Wc ++ [s], by rw [hW, List.append_assoc], ?_, ?_, ?_⟩
    · rw [h1]; exact hadd
    · rw [h2]; exact hdone
    · rw [h2]; exact hgood
  · refine ⟨Wd, Wc ++ [s], by rw [hW, List.append_assoc], ?_, ?_, ?_⟩
    · rw [h1]; exact fileOK_fin names _ _ s hadd
    · rw [h2]; exact hdone
    · rw [h2]; exact hgood
  · have hfin := fileOK_fin names _ _ s hadd
    refine ⟨Wd ++ (Wc ++ [s]), [], by rw [hW, List.append_nil, List.append_assoc], ?_, ?_, ?_⟩
    · rw [h1]; exact fileOK_empty names _ rfl rfl rfl rfl
    · rw [h2, allRecords_append, hdone, recs_of_fileOK names hnd _ _ hfin]
      simp
    · rw [h2]
      intro f hf
      rcases List.mem_append.1 hf with hf | hf
      · exact hgood f hf
      · simp only [List.mem_singleton] at hf
        subst hf
        exact good_of_fileOK names _ _ hfin

theorem writes_inv (names : List String) (hnd : names.Nodup) :
    ∀ (snaps : List Snapshot) (o : Out) (W : List Snapshot) (o' : Out), Inv names o W →
    (∀ s ∈ snaps, SnapOK names s) → writes o snaps = .ok o' → Inv names o' (W ++ snaps) := by
  intro snaps
  induction snaps with
  | nil =>
    intro o W o' hI _ hw
    obtain rfl := Except.ok.inj hw
    simpa using hI
  | cons s rest ih =>
    intro o W o' hI hok hw
    unfold writes at hw
    cases hws : o.write s with
    | error e => rw [hws] at hw; cases hw
    | ok o1 =>
      rw [hws] at hw
      have := ih o1 (W ++ [s]) o' (write_inv names hnd o W s o1 hI (hok s (by simp)) hws)
        (fun x hx => hok x (by simp [hx])) hw
      simpa using this

/-- **record_faithful / counts_sum** (one file): in every sparse file produced by the writer the
    counts sum to the length of every instance array, and record `n`, retrieved through the
    cumulative `particle_count`, is exactly the `n`-th snapshot written into that file —
    empty records included.  The requested variable names must be distinct (`hnd`): `write`
    appends by name lookup (`nc.variables[name]`), so with a name listed twice both columns
    would receive the first one's values from the second record of a file on. -/
theorem record_faithful (names : List String) (hnd : names.Nodup) (o : Out)
    (snaps : List Snapshot) (o' : Out)
    (hl : o.layout = .sparse) (hnew : o.cur.time = [] ∧ o.cur.count = [] ∧ o.cur.pid = [] ∧ o.cur.inst = [] ∧ o.done = [])
    (hok : ∀ s ∈ snaps, SnapOK names s) (hw : writes o snaps = .ok o') :
    allRecords o'.files = snaps.map (fun s => (s.time, s.pid, s.cols)) ∧
    ∀ f ∈ o'.files, (f.count.foldl (· + ·) 0 = f.pid.length ∧ ∀ c ∈ f.inst, c.2.length = f.pid.length) := by
  obtain ⟨h1, h2, h3, h4, h5⟩ := hnew
  have hI0 : Inv names o [] :=
    ⟨hl, [], [], rfl, fileOK_empty names _ h1 h2 h3 h4, by simp [h5, allRecords], by simp [h5]⟩
  have hI := writes_inv names hnd snaps o [] o' hI0 hok hw
  obtain ⟨Wd, Wc, hW, hcur, hdone, hgood⟩ := hI.ex
  rw [List.nil_append] at hW
  refine ⟨?_, ?_⟩
  · rw [Out.files, allRecords_append, hdone, recs_of_fileOK names hnd _ _ hcur, hW, List.map_append]
    rfl
  · intro f hf
    rcases List.mem_append.1 hf with hf | hf
    · exact hgood f hf
    · simp only [List.mem_singleton] at hf
      subst hf
      exact good_of_fileOK names _ _ hcur

/-- after a successful `write` one of the files is the old current file with the record added
    (up to the particle variables and the `closed` flag) -/
theorem write_file (o : Out) (s : Snapshot) (o' : Out) (hw : o.write s = .ok o') :
    ∃ f ∈ o'.files, f.time = o.cur.time ++ [s.time] ∧ f.dense = (addRec o.layout o.cur s).dense := by
  obtain ⟨-, -, hc⟩ := write_cases o s o' hw
  have ht : (addRec o.layout o.cur s).time = o.cur.time ++ [s.time] := by
    cases o.layout <;> rfl
  rcases hc with ⟨-, h1, -⟩ | ⟨-, h1, -⟩ | ⟨-, -, h2⟩
  · exact ⟨o'.cur, by simp [Out.files], by rw [h1, ht], by rw [h1]⟩
  · exact ⟨o'.cur, by simp [Out.files], by rw [h1]; exact ht, by rw [h1]; rfl⟩
  · exact ⟨finFile (addRec o.layout o.cur s) s, by simp [Out.files, h2], ht, rfl⟩

/-- **pvars_complete**: when a file is finished, its particle variables hold the value of every
    pid handed out so far (`npid` of the state at that moment): `pvar[p]` at index `p` for all
    `p < npid` — also for particles that are dead, or were never in a record. -/
theorem pvars_complete (o : Out) (s : Snapshot) (o' : Out) (hw : o.write s = .ok o')
    (hfin : o.localRecordCount + 1 = o.localNumRecords) :
    ∃ f ∈ o'.files, f.closed = true ∧ f.pvarN = some s.npid ∧
      f.pvars = s.pvars.map (fun c => (c.1, c.2.take s.npid)) := by
  obtain ⟨-, -, hc⟩ := write_cases o s o' hw
  rcases hc with ⟨hne, -, -⟩ | ⟨-, h1, -⟩ | ⟨-, -, h2⟩
  · exact absurd hfin hne
  · exact ⟨o'.cur, by simp [Out.files], by rw [h1]; rfl, by rw [h1]; rfl, by rw [h1]; rfl⟩
  · exact ⟨finFile (addRec o.layout o.cur s) s, by simp [Out.files, h2], rfl, rfl, rfl⟩

/-- **dense_faithful**: the dense layout stores, for each record and each variable, at position
    `p` the value of the particle at array position `p` (= pid `p`: nothing is ever removed in
    the dense layout, `C14.run_refines_spec_dense`) iff it is alive, and the fill value otherwise
    (dead, or not yet released: positions beyond the row read back as fill). -/
theorem dense_faithful (names : List String) (o : Out) (s : Snapshot) (o' : Out)
    (hl : o.layout = .dense) (hok : SnapOK names s) (hw : o.write s = .ok o') :
    ∃ f ∈ o'.files, f.time.getLast? = some s.time ∧
      ∃ row, f.dense.getLast? = some row ∧ row.map (·.1) = names ∧
        ∀ nm col, (nm, col) ∈ s.cols → ∃ cells, (nm, cells) ∈ row ∧ cells.length = s.pid.length ∧
          ∀ p, p < s.pid.length → cells[p]? = some (if s.alive[p]? = some true then col[p]? else none) := by
  obtain ⟨f, hf, ht, hd⟩ := write_file o s o' hw
  rw [hl] at hd
  refine ⟨f, hf, by rw [ht]; simp,
    s.cols.map (fun (n, c) => (n, (c.zip s.alive).map (fun (v, a) => if a then some v else none))),
    by rw [hd]; exact List.getLast?_concat .., ?_, ?_⟩
  · rw [List.map_map, ← hok.cols_names]
    rfl
  · intro nm col hmem
    have hcl : col.length = s.pid.length := hok.cols_len _ hmem
    have hal := hok.alive_len
    refine ⟨(col.zip s.alive).map (fun (v, a) => if a then some v else none), ?_, ?_, ?_⟩
    · exact List.mem_map.2 ⟨(nm, col), hmem, rfl⟩
    · simp [hcl, hal]
    · intro p hp
      have h1 : p < col.length := by omega
      have h2 : p < s.alive.length := by omega
      rw [List.getElem?_map, List.getElem?_zip_eq_some (z := (col[p], s.alive[p])) |>.2
        ⟨List.getElem?_eq_getElem h1, List.getElem?_eq_getElem h2⟩]
      simp only [Option.map_some, List.getElem?_eq_getElem h1, List.getElem?_eq_getElem h2]
      cases s.alive[p] <;> simp

/-- the time coordinate of a record is the snapshot's time (the clock's offset from the
    reference time, `Ladim.C13.nctime_spec`) -/
theorem time_coord (o : Out) (s : Snapshot) (o' : Out) (hw : o.write s = .ok o') :
    ∃ f ∈ o'.files, f.time.getLast? = some s.time := by
  obtain ⟨f, hf, ht, -⟩ := write_file o s o' hw
  exact ⟨f, hf, by rw [ht]; simp⟩

/-! non-vacuity: two records, the second one empty, retrieved back -/
example :
    let o := Out.init .sparse 1 2 0 "out" ".nc"
    let s1 : Snapshot := { time := 0, pid := [0, 2], alive := [true, true], cols := [("X", [.num 1, .num 3])], npid := 3, pvars := [] }
    let s2 : Snapshot := { time := 60, pid := [], alive := [], cols := [("X", [])], npid := 3, pvars := [] }
    (match writes o [s1, s2] with
     | .ok o' => allRecords o'.files
     | .error _ => []) = [(0, [0, 2], [("X", [.num 1, .num 3])]), (60, [], [("X", [])])] := by
  decide +kernel

/-! why `record_faithful` needs distinct names (`hnd`): with the name `X` requested twice, the
    second record reads back the first `X` column in both places (both snapshots are well-shaped
    for `names = ["X", "X"]`) -/
example :
    let o := Out.init .sparse 1 2 0 "out" ".nc"
    let s1 : Snapshot := { time := 0, pid := [0], alive := [true], cols := [("X", [.num 1]), ("X", [.num 2])], npid := 1, pvars := [] }
    let s2 : Snapshot := { time := 60, pid := [0], alive := [true], cols := [("X", [.num 3]), ("X", [.num 4])], npid := 1, pvars := [] }
    (match writes o [s1, s2] with
     | .ok o' => allRecords o'.files
     | .error _ => []) = [(0, [0], [("X", [.num 1]), ("X", [.num 2])]), (60, [0], [("X", [.num 3]), ("X", [.num 3])])] := by
  decide +kernel

end Ladim.C06
