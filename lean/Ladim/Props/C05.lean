import Ladim.Model.State
import Mathlib.Tactic.Linarith
import Mathlib.Data.List.Basic
/-
C05 — particle identity.  Property theorems about `Ladim.Model.State` (`ladim/state.py`).

The state is reached by an arbitrary sequence of operations (`Op`), of unbounded length.
-/

namespace Ladim.C05
open Ladim PState

/-- the operations the rest of the system performs on the state -/
inductive Op
  | append (args : List (String × Arg))
  | kill (mask : List Bool)
  | compactify
  | setitem (var : String) (vals : Column)

/-- one operation; a refused `append`/`setitem` leaves the state as it was (the Python call
    raises before mutating anything) -/
def applyOp (s : PState) : Op → PState
  | .append args => match s.append args with | .ok s' => s' | .error _ => s
  | .kill m => s.kill m
  | .compactify => s.compactify
  | .setitem v vals => match s.setitem v vals with | .ok s' => s' | .error _ => s

def run (s : PState) (ops : List Op) : PState := ops.foldl applyOp s

/-- item assignment keeps the length of the variable (what every caller in the code base
    does; `State.__setitem__` itself does not check it) -/
def LengthKeeping (s : PState) : Op → Prop
  | .setitem v vals =>
      (∀ c ∈ s.ivars, c.1 = v → vals.length = c.2.length) ∧
      (∀ c ∈ s.pvars, c.1 = v → vals.length = c.2.length)
  | _ => True

/-- all ops of a sequence are length keeping in the state they are applied to -/
def AllLengthKeeping : PState → List Op → Prop
  | _, [] => True
  | s, op :: ops => LengthKeeping s op ∧ AllLengthKeeping (applyOp s op) ops

/-- well-formedness: every instance array as long as `pid`, every particle array of length
    `npid`, pids strictly increasing and below `npid` -/
structure WF (s : PState) : Prop where
  ilen : ∀ c ∈ s.ivars, c.2.length = s.pid.length
  plen : ∀ c ∈ s.pvars, c.2.length = s.npid
  sorted : s.pid.Pairwise (· < ·)
  bound : ∀ p ∈ s.pid, p < s.npid
  hasAlive : ∃ c ∈ s.ivars, c.1 = "alive"

theorem wf_init (ei ep : List String) (d : List (String × Val)) : WF (PState.init ei ep d) := by
  sorry

/-- **pid_fresh**: a successful append of `n` particles hands out exactly
    `npid, …, npid+n−1`, appended after the existing ones, and advances `npid` by `n`. -/
theorem pid_fresh (s s' : PState) (args : List (String × Arg)) (h : s.append args = .ok s') :
    ∃ n, s'.pid = s.pid ++ (List.range n).map (· + s.npid) ∧ s'.npid = s.npid + n ∧
      (∀ c ∈ s'.ivars, ∃ c0 ∈ s.ivars, c0.1 = c.1 ∧ c.2.length = c0.2.length + n ∧ c0.2 <+: c.2) ∧
      (∀ c ∈ s'.pvars, ∃ c0 ∈ s.pvars, c0.1 = c.1 ∧ c.2.length = c0.2.length + n ∧ c0.2 <+: c.2) := by
  sorry

/-- **wf_preserved** (one step) -/
theorem wf_step (s : PState) (op : Op) (h : WF s) (hl : LengthKeeping s op) : WF (applyOp s op) := by
  sorry

/-- **wf_preserved**: every state reachable from the empty state by any sequence of
    appends, deaths, compactifications and (length-keeping) assignments is well-formed. -/
theorem wf_preserved (ei ep : List String) (d : List (String × Val)) (ops : List Op)
    (hl : AllLengthKeeping (PState.init ei ep d) ops) : WF (run (PState.init ei ep d) ops) := by
  sorry

/-- `npid` never decreases -/
theorem npid_mono (s : PState) (ops : List Op) : s.npid ≤ (run s ops).npid := by
  sorry

/-- **no pid is ever reused**: a pid present after any further operations is either one of the
    pids present before, or was handed out later (≥ the old `npid`). -/
theorem pid_never_reused (s : PState) (ops : List Op) (h : WF s) (hl : AllLengthKeeping s ops) :
    ∀ p ∈ (run s ops).pid, p ∈ s.pid ∨ s.npid ≤ p := by
  sorry

/-- **compactify_is_filter**: compactify keeps exactly the living particles, in order — in the
    pid column and, with the same mask, in every instance column; particle variables and `npid`
    are untouched. -/
theorem compactify_is_filter (s : PState) (h : WF s) :
    (s.compactify).pid = maskSel s.pid (s.aliveCol.map isTrue) ∧
    (s.compactify).ivars = s.ivars.map (fun c => (c.1, maskSel c.2 (s.aliveCol.map isTrue))) ∧
    (s.compactify).pvars = s.pvars ∧ (s.compactify).npid = s.npid := by
  sorry

/-- `maskSel` is an order-preserving sublist -/
theorem maskSel_sublist {α} (l : List α) (m : List Bool) : (maskSel l m).Sublist l := by
  sorry

/-- **record_pid_sorted / pid_ge_index**: in a well-formed state (hence in every output record,
    which is written from such a state) identifiers increase strictly and `pid[k] ≥ k`. -/
theorem pid_ge_index (s : PState) (h : WF s) (k : Nat) (hk : k < s.pid.length) :
    k ≤ s.pid[k] := by
  sorry

/-- the doc's remark: `pid[k] = k` for all `k` iff no earlier particle is missing -/
theorem pid_eq_index_iff (s : PState) (h : WF s) :
    (∀ k (hk : k < s.pid.length), s.pid[k] = k) ↔ s.pid = List.range s.pid.length := by
  sorry

/-- **values_follow_particle**: the row of a surviving particle.  `rowAt s k` is the tuple of
    instance values at array position `k`. -/
def rowAt (s : PState) (k : Nat) : List (String × Option Val) := s.ivars.map (fun c => (c.1, c.2[k]?))

/-- the row stored for pid `p` (none if `p` is not in the arrays) -/
def rowOf (s : PState) (p : Nat) : Option (List (String × Option Val)) :=
  match s.pid.idxOf? p with
  | some k => some (rowAt s k)
  | none => none

theorem values_follow_append (s s' : PState) (args : List (String × Arg)) (h : WF s)
    (ha : s.append args = .ok s') (p : Nat) (hp : p ∈ s.pid) : rowOf s' p = rowOf s p := by
  sorry

theorem values_follow_compactify (s : PState) (h : WF s)
    (p : Nat) (hp : p ∈ (s.compactify).pid) : rowOf s.compactify p = rowOf s p := by
  sorry

/-! non-vacuity -/
example : ∃ s, (PState.init ["age"] ["w0"] []).append [("X", .array [.num 1, .num 2]), ("Y", .scalar (.num 0)), ("Z", .scalar (.num 0))] = .ok s
    ∧ s.pid = [0, 1] ∧ s.npid = 2 := ⟨_, rfl, by decide, by decide⟩

end Ladim.C05
