import Ladim.Model.State
import Mathlib.Tactic.Linarith
import Mathlib.Data.List.Basic
/-
C05 — particle identity.  Property theorems about `Ladim.Model.State` (`ladim/state.py`).

The state is reached by an arbitrary sequence of operations (`Op`), of unbounded length.
-/

namespace Ladim.C05
open Ladim PState

/-- the operations the rest of the system performs on the state -/
inductive Op
  | append (args : List (String × Arg))
  | kill (mask : List Bool)
  | compactify
  | setitem (var : String) (vals : Column)

/-- one operation; a refused `append`/`setitem` leaves the state as it was (the Python call
    raises before mutating anything) -/
def applyOp (s : PState) : Op → PState
  | .append args => match s.append args with | .ok s' => s' | .error _ => s
  | .kill m => s.kill m
  | .compactify => s.compactify
  | .setitem v vals => match s.setitem v vals with | .ok s' => s' | .error _ => s

def run (s : PState) (ops : List Op) : PState := ops.foldl applyOp s

/-- item assignment keeps the length of the variable (what every caller in the code base
    does; `State.__setitem__` itself does not check it) -/
def LengthKeeping (s : PState) : Op → Prop
  | .setitem v vals =>
      (∀ c ∈ s.ivars, c.1 = v → vals.length = c.2.length) ∧
      (∀ c ∈ s.pvars, c.1 = v → vals.length = c.2.length)
  | _ => True

/-- all ops of a sequence are length keeping in the state they are applied to -/
def AllLengthKeeping : PState → List Op → Prop
  | _, [] => True
  | s, op :: ops => LengthKeeping s op ∧ AllLengthKeeping (applyOp s op) ops

/-- well-formedness: every instance array as long as `pid`, every particle array of length
    `npid`, pids strictly increasing and below `npid` -/
structure WF (s : PState) : Prop where
  ilen : ∀ c ∈ s.ivars, c.2.length = s.pid.length
  plen : ∀ c ∈ s.pvars, c.2.length = s.npid
  sorted : s.pid.Pairwise (· < ·)
  bound : ∀ p ∈ s.pid, p < s.npid
  hasAlive : ∃ c ∈ s.ivars, c.1 = "alive"

/-! helper lemmas -/

/-- `maskSel` is an order-preserving sublist -/
theorem maskSel_sublist {α} (l : List α) (m : List Bool) : (maskSel l m).Sublist l := by
  induction l generalizing m with
  | nil => cases m <;> simp [maskSel]
  | cons a as ih =>
    cases m with
    | nil => simp [maskSel]
    | cons b bs =>
      cases b
      · simpa [maskSel] using (ih bs).cons a
      · simpa [maskSel] using (ih bs)

theorem maskSel_length_congr {α β} (l : List α) (l' : List β) (m : List Bool)
    (h : l.length = l'.length) : (maskSel l m).length = (maskSel l' m).length := by
  induction l generalizing l' m with
  | nil =>
    cases l' with
    | nil => cases m <;> simp [maskSel]
    | cons _ _ => simp at h
  | cons a as ih =>
    cases l' with
    | nil => simp at h
    | cons a' as' =>
      cases m with
      | nil => simp [maskSel]
      | cons b bs =>
        have := ih as' bs (by simpa using h)
        cases b <;> simp [maskSel, this]

theorem maskSel_all_true {α} (l : List α) (m : List Bool) (hl : l.length ≤ m.length)
    (hm : m.all id = true) : maskSel l m = l := by
  induction l generalizing m with
  | nil => cases m <;> simp [maskSel]
  | cons a as ih =>
    cases m with
    | nil => simp at hl
    | cons b bs =>
      simp only [List.all_cons, Bool.and_eq_true, id] at hm
      simp [maskSel, hm.1, ih bs (by simpa using hl) hm.2]

theorem expandArg_length (n : Nat) (a : Arg) : (expandArg n a).length = n := by
  cases a with
  | scalar v => simp [expandArg]
  | array vs => simp only [expandArg]; split <;> simp [*]

theorem append_ok (s s' : PState) (args : List (String × Arg)) (h : s.append args = .ok s') :
    ∃ (n : Nat) (valueOf : String → Arg), s' = { s with
      pid := s.pid ++ (List.range n).map (· + s.npid),
      npid := s.npid + n,
      ivars := s.ivars.map (fun c => (c.1, c.2 ++ expandArg n (valueOf c.1))),
      pvars := s.pvars.map (fun c => (c.1, c.2 ++ expandArg n (valueOf c.1))) } := by
  unfold PState.append at h
  simp only at h
  split at h
  · cases h
  · split at h
    · cases h
    · rename_i n _
      injection h with h
      exact ⟨n, (fun nm => match lookup args nm with
        | some a => a
        | none => match lookup s.defaults nm with
          | some v => Arg.scalar v
          | none => Arg.scalar Val.nan), h.symm⟩


theorem wf_init (ei ep : List String) (d : List (String × Val)) : WF (PState.init ei ep d) := by
  refine ⟨?_, ?_, ?_, ?_, ?_⟩
  · intro c hc
    simp only [PState.init, List.mem_map] at hc
    obtain ⟨n, _, rfl⟩ := hc
    rfl
  · intro c hc
    simp only [PState.init, List.mem_map] at hc
    obtain ⟨n, _, rfl⟩ := hc
    rfl
  · simp [PState.init]
  · intro p hp
    simp [PState.init] at hp
  · exact ⟨("alive", []), by simp [PState.init, mandatory], rfl⟩

/-- **pid_fresh**: a successful append of `n` particles hands out exactly
    `npid, …, npid+n−1`, appended after the existing ones, and advances `npid` by `n`. -/
theorem pid_fresh (s s' : PState) (args : List (String × Arg)) (h : s.append args = .ok s') :
    ∃ n, s'.pid = s.pid ++ (List.range n).map (· + s.npid) ∧ s'.npid = s.npid + n ∧
      (∀ c ∈ s'.ivars, ∃ c0 ∈ s.ivars, c0.1 = c.1 ∧ c.2.length = c0.2.length + n ∧ c0.2 <+: c.2) ∧
      (∀ c ∈ s'.pvars, ∃ c0 ∈ s.pvars, c0.1 = c.1 ∧ c.2.length = c0.2.length + n ∧ c0.2 <+: c.2) := by
  obtain ⟨n, valueOf, rfl⟩ := append_ok s s' args h
  refine ⟨n, rfl, rfl, ?_, ?_⟩
  · intro c hc
    simp only [List.mem_map] at hc
    obtain ⟨c0, hc0, rfl⟩ := hc
    exact ⟨c0, hc0, rfl, by simp [expandArg_length], List.prefix_append _ _⟩
  · intro c hc
    simp only [List.mem_map] at hc
    obtain ⟨c0, hc0, rfl⟩ := hc
    exact ⟨c0, hc0, rfl, by simp [expandArg_length], List.prefix_append _ _⟩

theorem wf_append (s s' : PState) (args : List (String × Arg)) (h : WF s)
    (ha : s.append args = .ok s') : WF s' := by
  obtain ⟨n, valueOf, rfl⟩ := append_ok s s' args ha
  refine ⟨?_, ?_, ?_, ?_, ?_⟩
  · intro c hc
    simp only [List.mem_map] at hc
    obtain ⟨c0, hc0, rfl⟩ := hc
    simp [expandArg_length, h.ilen c0 hc0]
  · intro c hc
    simp only [List.mem_map] at hc
    obtain ⟨c0, hc0, rfl⟩ := hc
    simp [expandArg_length, h.plen c0 hc0]
  · simp only
    rw [List.pairwise_append]
    refine ⟨h.sorted, ?_, ?_⟩
    · rw [List.pairwise_map]
      exact List.pairwise_lt_range.imp (by intro a b hab; omega)
    · intro a ha b hb
      simp only [List.mem_map, List.mem_range] at hb
      obtain ⟨j, _, rfl⟩ := hb
      have := h.bound a ha
      omega
  · intro p hp
    simp only [List.mem_append, List.mem_map, List.mem_range] at hp
    rcases hp with hp | ⟨j, hj, rfl⟩
    · have := h.bound p hp
      show p < s.npid + n
      omega
    · show j + s.npid < s.npid + n
      omega
  · obtain ⟨c, hc, hn⟩ := h.hasAlive
    exact ⟨_, List.mem_map_of_mem hc, hn⟩

theorem wf_kill (s : PState) (m : List Bool) (h : WF s) : WF (s.kill m) := by
  refine ⟨?_, h.plen, h.sorted, h.bound, ?_⟩
  · intro c hc
    simp only [PState.kill, List.mem_map] at hc
    obtain ⟨c0, hc0, rfl⟩ := hc
    have := h.ilen c0 hc0
    show _ = s.pid.length
    split
    · simp only [List.length_map, List.length_zip, List.length_append, List.length_replicate]
      omega
    · exact this
  · obtain ⟨c, hc, hn⟩ := h.hasAlive
    refine ⟨_, List.mem_map_of_mem (f := _) hc, ?_⟩
    show (if c.1 == "alive" then _ else _ : String × Column).1 = "alive"
    split <;> exact hn

theorem wf_compactify (s : PState) (h : WF s) : WF s.compactify := by
  unfold PState.compactify
  simp only
  split
  · exact h
  · refine ⟨?_, h.plen, ?_, ?_, ?_⟩
    · intro c hc
      simp only [List.mem_map] at hc
      obtain ⟨c0, hc0, rfl⟩ := hc
      exact maskSel_length_congr _ _ _ (h.ilen c0 hc0)
    · exact h.sorted.sublist (maskSel_sublist _ _)
    · intro p hp
      exact h.bound p ((maskSel_sublist _ _).subset hp)
    · obtain ⟨c, hc, hn⟩ := h.hasAlive
      exact ⟨_, List.mem_map_of_mem hc, hn⟩

theorem wf_setitem (s s' : PState) (v : String) (vals : Column) (h : WF s)
    (hl : LengthKeeping s (.setitem v vals)) (hs : s.setitem v vals = .ok s') : WF s' := by
  unfold PState.setitem at hs
  split at hs
  · injection hs with hs
    subst hs
    refine ⟨?_, h.plen, h.sorted, h.bound, ?_⟩
    · intro c hc
      simp only [List.mem_map] at hc
      obtain ⟨c0, hc0, rfl⟩ := hc
      show _ = s.pid.length
      split
      · rename_i heq
        rw [← h.ilen c0 hc0]
        exact hl.1 c0 hc0 (by simpa using heq)
      · exact h.ilen c0 hc0
    · obtain ⟨c, hc, hn⟩ := h.hasAlive
      refine ⟨_, List.mem_map_of_mem (f := _) hc, ?_⟩
      show (if c.1 == v then _ else _ : String × Column).1 = "alive"
      split <;> exact hn
  · split at hs
    · injection hs with hs
      subst hs
      refine ⟨h.ilen, ?_, h.sorted, h.bound, h.hasAlive⟩
      intro c hc
      simp only [List.mem_map] at hc
      obtain ⟨c0, hc0, rfl⟩ := hc
      show _ = s.npid
      split
      · rename_i heq
        rw [← h.plen c0 hc0]
        exact hl.2 c0 hc0 (by simpa using heq)
      · exact h.plen c0 hc0
    · cases hs

/-- **wf_preserved** (one step) -/
theorem wf_step (s : PState) (op : Op) (h : WF s) (hl : LengthKeeping s op) : WF (applyOp s op) := by
  cases op with
  | append args =>
    simp only [applyOp]
    split
    · rename_i s' hs; exact wf_append s s' args h hs
    · exact h
  | kill m => exact wf_kill s m h
  | compactify => exact wf_compactify s h
  | setitem v vals =>
    simp only [applyOp]
    split
    · rename_i s' hs; exact wf_setitem s s' v vals h hl hs
    · exact h


theorem wf_run (s : PState) (ops : List Op) (h : WF s) (hl : AllLengthKeeping s ops) :
    WF (run s ops) := by
  induction ops generalizing s with
  | nil => exact h
  | cons op ops ih =>
    exact ih (applyOp s op) (wf_step s op h hl.1) hl.2

/-- **wf_preserved**: every state reachable from the empty state by any sequence of
    appends, deaths, compactifications and (length-keeping) assignments is well-formed. -/
theorem wf_preserved (ei ep : List String) (d : List (String × Val)) (ops : List Op)
    (hl : AllLengthKeeping (PState.init ei ep d) ops) : WF (run (PState.init ei ep d) ops) :=
  wf_run _ ops (wf_init ei ep d) hl

/-- one step: `npid` does not decrease and every pid afterwards is old or fresh -/
theorem step_pid (s : PState) (op : Op) :
    s.npid ≤ (applyOp s op).npid ∧ ∀ p ∈ (applyOp s op).pid, p ∈ s.pid ∨ s.npid ≤ p := by
  cases op with
  | append args =>
    simp only [applyOp]
    split
    · rename_i s' hs
      obtain ⟨n, valueOf, rfl⟩ := append_ok s s' args hs
      refine ⟨Nat.le_add_right _ _, ?_⟩
      intro p hp
      simp only [List.mem_append, List.mem_map, List.mem_range] at hp
      rcases hp with hp | ⟨j, _, rfl⟩
      · exact Or.inl hp
      · exact Or.inr (Nat.le_add_left _ _)
    · exact ⟨Nat.le_refl _, fun p hp => Or.inl hp⟩
  | kill m => exact ⟨Nat.le_refl _, fun p hp => Or.inl hp⟩
  | compactify =>
    simp only [applyOp, PState.compactify]
    split
    · exact ⟨Nat.le_refl _, fun p hp => Or.inl hp⟩
    · exact ⟨Nat.le_refl _, fun p hp => Or.inl ((maskSel_sublist _ _).subset hp)⟩
  | setitem v vals =>
    simp only [applyOp]
    split
    · rename_i s' hs
      unfold PState.setitem at hs
      split at hs
      · injection hs with hs; subst hs
        exact ⟨Nat.le_refl _, fun p hp => Or.inl hp⟩
      · split at hs
        · injection hs with hs; subst hs
          exact ⟨Nat.le_refl _, fun p hp => Or.inl hp⟩
        · cases hs
    · exact ⟨Nat.le_refl _, fun p hp => Or.inl hp⟩

/-- `npid` never decreases -/
theorem npid_mono (s : PState) (ops : List Op) : s.npid ≤ (run s ops).npid := by
  induction ops generalizing s with
  | nil => exact Nat.le_refl _
  | cons op ops ih => exact Nat.le_trans (step_pid s op).1 (ih (applyOp s op))

/-- **no pid is ever reused**: a pid present after any further operations is either one of the
    pids present before, or was handed out later (≥ the old `npid`). -/
theorem pid_never_reused (s : PState) (ops : List Op) (h : WF s) (hl : AllLengthKeeping s ops) :
    ∀ p ∈ (run s ops).pid, p ∈ s.pid ∨ s.npid ≤ p := by
  induction ops generalizing s with
  | nil => exact fun p hp => Or.inl hp
  | cons op ops ih =>
    intro p hp
    rcases ih (applyOp s op) (wf_step s op h hl.1) hl.2 p hp with h1 | h1
    · exact (step_pid s op).2 p h1
    · exact Or.inr (Nat.le_trans (step_pid s op).1 h1)

/-- in a well-formed state the `alive` column is as long as `pid` -/
theorem aliveCol_length (s : PState) (h : WF s) : s.aliveCol.length = s.pid.length := by
  obtain ⟨c, hc, hn⟩ := h.hasAlive
  unfold PState.aliveCol PState.lookup
  cases hf : s.ivars.find? (·.1 == "alive") with
  | none =>
    have := List.find?_eq_none.1 hf c hc
    simp [hn] at this
  | some c' =>
    exact h.ilen c' (List.mem_of_find?_eq_some hf)

/-- **compactify_is_filter**: compactify keeps exactly the living particles, in order — in the
    pid column and, with the same mask, in every instance column; particle variables and `npid`
    are untouched. -/
theorem compactify_is_filter (s : PState) (h : WF s) :
    (s.compactify).pid = maskSel s.pid (s.aliveCol.map isTrue) ∧
    (s.compactify).ivars = s.ivars.map (fun c => (c.1, maskSel c.2 (s.aliveCol.map isTrue))) ∧
    (s.compactify).pvars = s.pvars ∧ (s.compactify).npid = s.npid := by
  have hal := aliveCol_length s h
  unfold PState.compactify
  simp only
  split
  · rename_i hall
    refine ⟨?_, ?_, rfl, rfl⟩
    · exact (maskSel_all_true _ _ (by simp [hal]) hall).symm
    · symm
      conv => rhs; rw [← List.map_id s.ivars]
      apply List.map_congr_left
      intro c hc
      have := maskSel_all_true c.2 _ (by simp [hal, h.ilen c hc]) hall
      simp [this]
  · exact ⟨rfl, rfl, rfl, rfl⟩

theorem pid_ge_index_aux (l : List Nat) (hs : l.Pairwise (· < ·)) (k : Nat) (hk : k < l.length) :
    k ≤ l[k] := by
  induction k with
  | zero => exact Nat.zero_le _
  | succ k ih =>
    have h1 := ih (by omega)
    have h2 : l[k] < l[k+1] := List.pairwise_iff_getElem.1 hs k (k+1) (by omega) hk (by omega)
    omega

/-- **record_pid_sorted / pid_ge_index**: in a well-formed state (hence in every output record,
    which is written from such a state) identifiers increase strictly and `pid[k] ≥ k`. -/
theorem pid_ge_index (s : PState) (h : WF s) (k : Nat) (hk : k < s.pid.length) :
    k ≤ s.pid[k] := pid_ge_index_aux s.pid h.sorted k hk

/-- the doc's remark: `pid[k] = k` for all `k` iff no earlier particle is missing -/
theorem pid_eq_index_iff (s : PState) (h : WF s) :
    (∀ k (hk : k < s.pid.length), s.pid[k] = k) ↔ s.pid = List.range s.pid.length := by
  have _ := h
  constructor
  · intro hh
    apply List.ext_getElem (by simp)
    intro k h1 h2
    simp [hh k h1]
  · intro hh k hk
    have : s.pid[k] = (List.range s.pid.length)[k]'(by simpa using hk) := by
      congr 1
    simpa using this


/-- **values_follow_particle**: the row of a surviving particle.  `rowAt s k` is the tuple of
    instance values at array position `k`. -/
def rowAt (s : PState) (k : Nat) : List (String × Option Val) := s.ivars.map (fun c => (c.1, c.2[k]?))

/-- the row stored for pid `p` (none if `p` is not in the arrays) -/
def rowOf (s : PState) (p : Nat) : Option (List (String × Option Val)) :=
  match s.pid.idxOf? p with
  | some k => some (rowAt s k)
  | none => none

theorem values_follow_append (s s' : PState) (args : List (String × Arg)) (h : WF s)
    (ha : s.append args = .ok s') (p : Nat) (hp : p ∈ s.pid) : rowOf s' p = rowOf s p := by
  obtain ⟨n, valueOf, rfl⟩ := append_ok s s' args ha
  have hsome : (s.pid.idxOf? p).isSome := List.isSome_idxOf?.2 hp
  obtain ⟨k, hk⟩ := Option.isSome_iff_exists.1 hsome
  have hklt : k < s.pid.length := (List.idxOf?_eq_some_iff.1 hk).1
  have hk' : (s.pid ++ (List.range n).map (· + s.npid)).idxOf? p = some k := by
    unfold List.idxOf? at hk ⊢
    rw [List.findIdx?_append, hk]
    rfl
  unfold rowOf
  simp only [hk, hk']
  congr 1
  unfold rowAt
  simp only [List.map_map]
  apply List.map_congr_left
  intro c hc
  have : k < c.2.length := by rw [h.ilen c hc]; exact hklt
  simp [List.getElem?_append_left this]

theorem maskSel_idx {β} (p : Nat) (l : List Nat) (m : List Bool) (hn : l.Nodup)
    (k k' : Nat) (hk : l.idxOf? p = some k) (hk' : (maskSel l m).idxOf? p = some k')
    (col : List β) (hc : col.length = l.length) : (maskSel col m)[k']? = col[k]? := by
  induction l generalizing m k k' col with
  | nil => simp at hk
  | cons a as ih =>
    cases col with
    | nil => simp at hc
    | cons c cs =>
      cases m with
      | nil => simp [maskSel] at hk'
      | cons b bs =>
        have hn' := (List.nodup_cons.1 hn)
        have hcs : cs.length = as.length := by simpa using hc
        rw [List.idxOf?_cons] at hk
        cases b with
        | true =>
          have e1 : maskSel (a :: as) (true :: bs) = a :: maskSel as bs := by simp [maskSel]
          have e2 : maskSel (c :: cs) (true :: bs) = c :: maskSel cs bs := by simp [maskSel]
          rw [e1, List.idxOf?_cons] at hk'
          rw [e2]
          by_cases hap : a = p
          · subst hap
            simp only [beq_self_eq_true, if_true, Option.some.injEq] at hk hk'
            subst hk; subst hk'
            rfl
          · have hap' : (a == p) = false := by simpa using hap
            simp only [hap', Bool.false_eq_true, if_false, Option.map_eq_some_iff] at hk hk'
            obtain ⟨j, hj, rfl⟩ := hk
            obtain ⟨j', hj', rfl⟩ := hk'
            simpa using ih bs hn'.2 j j' hj hj' cs hcs
        | false =>
          have e1 : maskSel (a :: as) (false :: bs) = maskSel as bs := by simp [maskSel]
          have e2 : maskSel (c :: cs) (false :: bs) = maskSel cs bs := by simp [maskSel]
          rw [e1] at hk'
          rw [e2]
          by_cases hap : a = p
          · exfalso
            have hs : ((maskSel as bs).idxOf? p).isSome := by simp [hk']
            have hmem := (maskSel_sublist _ _).subset (List.isSome_idxOf?.1 hs)
            exact hn'.1 (hap ▸ hmem)
          · have hap' : (a == p) = false := by simpa using hap
            simp only [hap', Bool.false_eq_true, if_false, Option.map_eq_some_iff] at hk
            obtain ⟨j, hj, rfl⟩ := hk
            simpa using ih bs hn'.2 j k' hj hk' cs hcs

theorem values_follow_compactify (s : PState) (h : WF s)
    (p : Nat) (hp : p ∈ (s.compactify).pid) : rowOf s.compactify p = rowOf s p := by
  obtain ⟨hpid, hiv, _, _⟩ := compactify_is_filter s h
  have hnd : s.pid.Nodup := h.sorted.imp (fun hab => Nat.ne_of_lt hab)
  have hp0 : p ∈ s.pid := by
    rw [hpid] at hp
    exact (maskSel_sublist _ _).subset hp
  obtain ⟨k, hk⟩ := Option.isSome_iff_exists.1 (List.isSome_idxOf?.2 hp0)
  obtain ⟨k', hk'⟩ := Option.isSome_iff_exists.1 (List.isSome_idxOf?.2 hp)
  unfold rowOf
  simp only [hk, hk']
  congr 1
  unfold rowAt
  rw [hiv, List.map_map]
  apply List.map_congr_left
  intro c hc
  rw [hpid] at hk'
  simp [maskSel_idx p s.pid _ hnd k k' hk hk' c.2 (h.ilen c hc)]

/-! non-vacuity -/
example : ∃ s, (PState.init ["age"] ["w0"] []).append [("X", .array [.num 1, .num 2]), ("Y", .scalar (.num 0)), ("Z", .scalar (.num 0))] = .ok s
    ∧ s.pid = [0, 1] ∧ s.npid = 2 := ⟨_, rfl, by decide, by decide⟩

end Ladim.C05
