import Ladim.Props.Simulation
import Ladim.Props.C17
import Ladim.Props.C02Sub
/-
C17 (and C09) for the whole simulation: in `Sim.run` of a set-up whose arrays have the shapes the
ROMS file format prescribes, with at least two vertical levels, the grid, the windowed frames and
the running fields of every step have the shapes the samplers index, and the tracker of every
step finds every array element it reads: `RomsSetup.move` never takes the out-of-range branch
(never sets `__oob__`) for a particle at a valid position.  With `Whole.records_valid` (every
particle of every record is at a valid position) this says that no step of no whole run reads
outside an array.
-/

namespace Ladim.SimBounds
open Ladim C17

/-- the arrays of the set-up have the shapes of a ROMS file with `jmax × imax` rho-points and
    `N` levels: rho-arrays `[jmax][imax]`, u `[N][jmax][imax-1]`, v `[N][jmax-1][imax]` -/
structure WF (s : Sim) (N jmax imax : Int) : Prop where
  hN : 2 ≤ N
  hCs : (s.file.CsR.length : Int) = N
  hh : Shape2 s.file.h jmax imax
  hmask : Shape2 s.file.mask jmax imax
  hdx : Shape2 s.file.dx jmax imax
  hne : s.frames ≠ []
  hU : ∀ fr ∈ s.frames, Shape3 (s.rawU fr.file fr.idx) N jmax (imax - 1)
  hV : ∀ fr ∈ s.frames, Shape3 (s.rawV fr.file fr.idx) N (jmax - 1) imax

/-! ### shapes of slices, masks and windows -/

theorem slice_length {α} (l : List α) (a b : Int) (ha : 0 ≤ a) (hab : a ≤ b) (hb : b ≤ (l.length : Int)) :
    ((slice l a b).length : Int) = b - a := by
  unfold slice
  rw [List.length_take, List.length_drop]
  omega

theorem mem_slice {α} (l : List α) (a b : Int) (x : α) (h : x ∈ slice l a b) : x ∈ l :=
  List.mem_of_mem_drop (List.mem_of_mem_take h)

theorem slice2_shape (F : Field2) (rows cols j0 j1 i0 i1 : Int) (h : Shape2 F rows cols)
    (hj0 : 0 ≤ j0) (hj : j0 ≤ j1) (hj1 : j1 ≤ rows) (hi0 : 0 ≤ i0) (hi : i0 ≤ i1) (hi1 : i1 ≤ cols) :
    Shape2 (slice2 F j0 j1 i0 i1) (j1 - j0) (i1 - i0) := by
  refine ⟨?_, ?_⟩
  · unfold slice2
    rw [List.length_map]
    exact slice_length F j0 j1 hj0 hj (by rw [h.rws]; exact hj1)
  · intro r hr
    unfold slice2 at hr
    obtain ⟨r0, hr0, rfl⟩ := List.mem_map.1 hr
    exact slice_length r0 i0 i1 hi0 hi (by rw [h.cls r0 (mem_slice _ _ _ _ hr0)]; exact hi1)

theorem map_slice2_shape (F : Field3) (n rows cols j0 j1 i0 i1 : Int) (h : Shape3 F n rows cols)
    (hj0 : 0 ≤ j0) (hj : j0 ≤ j1) (hj1 : j1 ≤ rows) (hi0 : 0 ≤ i0) (hi : i0 ≤ i1) (hi1 : i1 ≤ cols) :
    Shape3 (F.map (fun P => slice2 P j0 j1 i0 i1)) n (j1 - j0) (i1 - i0) := by
  refine ⟨?_, ?_, ?_⟩
  · rw [List.length_map]; exact h.levels
  · intro P hP
    obtain ⟨P0, hP0, rfl⟩ := List.mem_map.1 hP
    exact (slice2_shape P0 rows cols j0 j1 i0 i1 ⟨h.rws P0 hP0, h.cls P0 hP0⟩ hj0 hj hj1 hi0 hi hi1).rws
  · intro P hP
    obtain ⟨P0, hP0, rfl⟩ := List.mem_map.1 hP
    exact (slice2_shape P0 rows cols j0 j1 i0 i1 ⟨h.rws P0 hP0, h.cls P0 hP0⟩ hj0 hj hj1 hi0 hi hi1).cls

theorem zRho_shape (vt : Nat) (H : Field2) (hc : Rat) (Cs : List Rat) (rows cols : Int)
    (h : Shape2 H rows cols) : Shape3 (zRho vt H hc Cs) (Cs.length : Int) rows cols := by
  refine ⟨?_, ?_, ?_⟩
  · simp only [zRho, List.length_map, List.length_zip, List.length_range, Nat.min_self]
  · intro P hP
    simp only [zRho, List.mem_map] at hP
    obtain ⟨⟨k, c⟩, -, rfl⟩ := hP
    simp only [List.length_map]
    exact h.rws
  · intro P hP r hr
    simp only [zRho, List.mem_map] at hP
    obtain ⟨⟨k, c⟩, -, rfl⟩ := hP
    simp only [List.mem_map] at hr
    obtain ⟨r0, hr0, rfl⟩ := hr
    simp only [List.length_map]
    exact h.cls r0 hr0

theorem maskU_shape (M : Field2) (rows cols : Int) (h : Shape2 M rows cols) (hc : 1 ≤ cols) :
    Shape2 (maskU M) rows (cols + 1) := by
  refine ⟨?_, ?_⟩
  · unfold maskU
    rw [List.length_map]; exact h.rws
  · intro r hr
    unfold maskU at hr
    obtain ⟨r0, hr0, rfl⟩ := List.mem_map.1 hr
    have hl := h.cls r0 hr0
    cases r0 with
    | nil => simp only [List.length_nil] at hl; omega
    | cons a t =>
      simp only [List.length_append, List.length_map, List.length_zip, List.length_cons, List.length_nil,
        List.tail_cons] at hl ⊢
      omega

theorem mem_getLastD {α} (l : List α) (a : α) (h : a ∈ l) : l.getLastD a ∈ l := by
  cases l with
  | nil => cases h
  | cons b t =>
    rw [List.getLastD_cons]
    cases t with
    | nil => simp
    | cons c u =>
      rw [List.getLastD_eq_getLast?, List.getLast?_eq_some_getLast (List.cons_ne_nil c u)]
      simp only [Option.getD_some]
      exact List.mem_cons_of_mem _ (List.getLast_mem _)

theorem maskV_shape (M : Field2) (rows cols : Int) (h : Shape2 M rows cols) (hr : 1 ≤ rows) :
    Shape2 (maskV M) (rows + 1) cols := by
  have hl := h.rws
  cases hM : M with
  | nil => rw [hM] at hl; simp only [List.length_nil] at hl; omega
  | cons r0 t =>
    rw [hM] at hl h
    refine ⟨?_, ?_⟩
    · simp only [maskV, List.length_append, List.length_map, List.length_zip, List.length_cons, List.length_nil,
        List.tail_cons] at hl ⊢
      omega
    · intro r hrm
      simp only [maskV, List.mem_append, List.mem_map, List.mem_singleton] at hrm
      rcases hrm with (rfl | ⟨⟨a, b⟩, hz, rfl⟩) | rfl
      · exact h.cls r List.mem_cons_self
      · obtain ⟨m1, m2⟩ := List.of_mem_zip hz
        have h1 := h.cls a m1
        have h2 := h.cls b (List.mem_of_mem_tail m2)
        simp only [List.length_map, List.length_zip]
        omega
      · exact h.cls _ (mem_getLastD _ _ List.mem_cons_self)

theorem readVel_shape (raw : Field3) (scale : Option Rat) (mask : Field2) (n rows cols : Int)
    (hr : Shape3 raw n rows cols) (hm : Shape2 mask rows cols) :
    Shape3 (readVel raw scale mask) n rows cols := by
  refine ⟨?_, ?_, ?_⟩
  · simp only [readVel, List.length_map]; exact hr.levels
  · intro P hP
    simp only [readVel, List.mem_map] at hP
    obtain ⟨P0, hP0, rfl⟩ := hP
    have h1 := hr.rws P0 hP0
    have h2 := hm.rws
    simp only [List.length_map, List.length_zip]
    omega
  · intro P hP r hrow
    simp only [readVel, List.mem_map] at hP
    obtain ⟨P0, hP0, rfl⟩ := hP
    simp only [List.mem_map] at hrow
    obtain ⟨⟨r0, mr⟩, hz, rfl⟩ := hrow
    obtain ⟨k1, k2⟩ := List.of_mem_zip hz
    have h1 := hr.cls P0 hP0 r0 k1
    have h2 := hm.cls mr k2
    simp only [List.length_map, List.length_zip]
    omega

/-- what `mkGrid` returns: the limits, and every array as a slice of the file's -/
theorem mkGrid_fields (f : RomsFile) (sub : Option (Int × Int × Int × Int)) (g : GridM)
    (hg : mkGrid f sub = some g) :
    subgridLimits ((f.h.headD []).length) f.h.length sub = some (g.i0, g.i1, g.j0, g.j1) ∧
    g.H = slice2 f.h g.j0 g.j1 g.i0 g.i1 ∧ g.M = slice2 f.mask g.j0 g.j1 g.i0 g.i1 ∧
    g.dx = slice2 f.dx g.j0 g.j1 g.i0 g.i1 ∧
    g.zr = zRho f.vtransform (slice2 f.h g.j0 g.j1 g.i0 g.i1) f.hc f.CsR := by
  unfold mkGrid at hg
  simp only at hg
  split at hg
  · exact absurd hg (by simp)
  · rename_i i0 i1 j0 j1 hs
    obtain rfl := Option.some.inj hg
    exact ⟨hs, rfl, rfl, rfl, rfl⟩

/-- the subgrid limits of a well-shaped file lie inside it -/
theorem grid_limits (s : Sim) (N jmax imax : Int) (hwf : WF s N jmax imax) (g : GridM)
    (hg : mkGrid s.file s.sub = some g) :
    1 ≤ g.i0 ∧ g.i0 < g.i1 ∧ g.i1 ≤ imax - 1 ∧ 1 ≤ g.j0 ∧ g.j0 < g.j1 ∧ g.j1 ≤ jmax - 1 := by
  obtain ⟨hs, -⟩ := mkGrid_fields s.file s.sub g hg
  have hl := C02.subgridLimits_some _ _ _ _ _ _ _ hs
  have hj : (s.file.h.length : Int) = jmax := hwf.hh.rws
  have hi : ((s.file.h.headD []).length : Int) = imax := by
    cases hh : s.file.h with
    | nil => rw [hh] at hl; simp only [List.length_nil] at hl; omega
    | cons r t =>
      simp only [List.headD_cons]
      exact hwf.hh.cls r (by rw [hh]; exact List.mem_cons_self)
  rw [hi, hj] at hl
  exact hl

/-- the grid of a well-shaped file: the subgrid limits lie inside the file and the windows of the
    2-D arrays have the shape of the subgrid -/
theorem grid_shapes (s : Sim) (N jmax imax : Int) (hwf : WF s N jmax imax) (g : GridM)
    (hg : mkGrid s.file s.sub = some g) :
    1 ≤ g.i0 ∧ g.i0 < g.i1 ∧ g.i1 ≤ imax - 1 ∧ 1 ≤ g.j0 ∧ g.j0 < g.j1 ∧ g.j1 ≤ jmax - 1 ∧
    Shape2 g.H (g.j1 - g.j0) (g.i1 - g.i0) ∧ Shape2 g.M (g.j1 - g.j0) (g.i1 - g.i0) ∧
    Shape2 g.dx (g.j1 - g.j0) (g.i1 - g.i0) ∧ Shape3 g.zr N (g.j1 - g.j0) (g.i1 - g.i0) := by
  obtain ⟨h1, h2, h3, h4, h5, h6⟩ := grid_limits s N jmax imax hwf g hg
  obtain ⟨-, eH, eM, edx, ezr⟩ := mkGrid_fields s.file s.sub g hg
  have sH : Shape2 g.H (g.j1 - g.j0) (g.i1 - g.i0) := by
    rw [eH]
    exact slice2_shape _ jmax imax _ _ _ _ hwf.hh (by omega) (by omega) (by omega) (by omega) (by omega) (by omega)
  refine ⟨h1, h2, h3, h4, h5, h6, sH, ?_, ?_, ?_⟩
  · rw [eM]
    exact slice2_shape _ jmax imax _ _ _ _ hwf.hmask (by omega) (by omega) (by omega) (by omega) (by omega) (by omega)
  · rw [edx]
    exact slice2_shape _ jmax imax _ _ _ _ hwf.hdx (by omega) (by omega) (by omega) (by omega) (by omega) (by omega)
  · rw [ezr, ← eH, ← hwf.hCs]
    exact zRho_shape _ _ _ _ _ _ sH

/-- the u- and v-windows of a well-shaped frame have the shapes the sampler indexes -/
theorem window_shapes (s : Sim) (N jmax imax : Int) (hwf : WF s N jmax imax) (g : GridM)
    (hg : mkGrid s.file s.sub = some g) (fr : Frame) (hfr : fr ∈ s.frames) :
    Shape3 (windowU g (s.rawU fr.file fr.idx) none) N (g.j1 - g.j0) (g.i1 - g.i0 + 1) ∧
    Shape3 (windowV g (s.rawV fr.file fr.idx) none) N (g.j1 - g.j0 + 1) (g.i1 - g.i0) := by
  obtain ⟨h1, h2, h3, h4, h5, h6, -, sM, -, -⟩ := grid_shapes s N jmax imax hwf g hg
  constructor
  · unfold windowU
    apply readVel_shape
    · have := map_slice2_shape (s.rawU fr.file fr.idx) N jmax (imax - 1) g.j0 g.j1 (g.i0 - 1) g.i1
        (hwf.hU fr hfr) (by omega) (by omega) (by omega) (by omega) (by omega) (by omega)
      have e : g.i1 - (g.i0 - 1) = g.i1 - g.i0 + 1 := by omega
      rw [e] at this
      exact this
    · exact maskU_shape g.M _ _ sM (by omega)
  · unfold windowV
    apply readVel_shape
    · have := map_slice2_shape (s.rawV fr.file fr.idx) N (jmax - 1) imax (g.j0 - 1) g.j1 g.i0 g.i1
        (hwf.hV fr hfr) (by omega) (by omega) (by omega) (by omega) (by omega) (by omega)
      have e : g.j1 - (g.j0 - 1) = g.j1 - g.j0 + 1 := by omega
      rw [e] at this
      exact this
    · exact maskV_shape g.M _ _ sM (by omega)

/-- `mapNodes` keeps the shape of its pattern -/
theorem mapNodes_shape (shape : Field3) (f : Nat → Nat → Nat → Rat) (n rows cols : Int)
    (h : Shape3 shape n rows cols) : Shape3 (mapNodes shape f) n rows cols := by
  refine ⟨?_, ?_, ?_⟩
  · simp only [mapNodes, List.length_map, List.length_zipIdx]
    exact h.levels
  · intro P hP
    simp only [mapNodes, List.mem_map] at hP
    obtain ⟨⟨P0, k⟩, hP0, rfl⟩ := hP
    simp only [List.length_map, List.length_zipIdx]
    exact h.rws P0 (List.fst_mem_of_mem_zipIdx hP0)
  · intro P hP r hr
    simp only [mapNodes, List.mem_map] at hP
    obtain ⟨⟨P0, k⟩, hP0, rfl⟩ := hP
    simp only [List.mem_map] at hr
    obtain ⟨⟨r0, j⟩, hr0, rfl⟩ := hr
    simp only [List.length_map, List.length_zipIdx]
    exact h.cls P0 (List.fst_mem_of_mem_zipIdx hP0) r0 (List.fst_mem_of_mem_zipIdx hr0)

/-- the running fields of every prepared step have the shape of the first frame's array -/
theorem fieldSeq_shape (frames : List Frame) (arr : Nat → Nat → Field3) (nrun : Nat) (n rows cols : Int)
    (h : Shape3 (shapeOf frames arr) n rows cols) (k : Nat) (hk : k < nrun) :
    Shape3 ((fieldSeq frames arr nrun)[k]?.getD ([], [])).1 n rows cols ∧
    Shape3 ((fieldSeq frames arr nrun)[k]?.getD ([], [])).2 n rows cols := by
  rw [WholeForcing.fieldSeq_get frames arr nrun k hk]
  dsimp only
  exact ⟨mapNodes_shape _ _ _ _ _ h, mapNodes_shape _ _ _ _ _ h⟩

/-- the shape pattern of the tabulated arrays is the head frame's array -/
theorem shapeOf_tabulate (frames : List Frame) (fn : Nat → Nat → Field3) (f0 : Frame) (rest : List Frame)
    (h : frames = f0 :: rest) :
    shapeOf frames (tabulate ((frames.map (·.file)).foldl max 0 + 1) ((frames.map (·.idx)).foldl max 0 + 1) fn)
      = fn f0.file f0.idx := by
  have hm : f0 ∈ frames := by rw [h]; exact List.mem_cons_self
  have e : shapeOf frames (tabulate ((frames.map (·.file)).foldl max 0 + 1) ((frames.map (·.idx)).foldl max 0 + 1) fn)
      = tabulate ((frames.map (·.file)).foldl max 0 + 1) ((frames.map (·.idx)).foldl max 0 + 1) fn f0.file f0.idx := by
    subst h; rfl
  rw [e]
  apply Simulation.tabulate_eq
  · have := (C08.foldl_max_ge (frames.map (·.file)) 0).2 f0.file (List.mem_map_of_mem hm)
    omega
  · have := (C08.foldl_max_ge (frames.map (·.idx)) 0).2 f0.idx (List.mem_map_of_mem hm)
    omega

/-- **run_fields_shaped**: the fields the tracker of step `k ≤ nsteps` of the run samples have the
    shapes `[N][J][I+1]` (u) and `[N][J+1][I]` (v) of the subgrid -/
theorem run_fields_shaped (s : Sim) (N jmax imax : Int) (hwf : WF s N jmax imax) (g : GridM)
    (hg : mkGrid s.file s.sub = some g) (rel : Rel) (nsteps : Nat) (rnd : Rat → Rat) (k : Nat) (hk : k ≤ nsteps) :
    let st := s.setup g (nsteps + 1) (rel.run 0 (nsteps + 1)) rnd
    Shape3 (st.fieldU k).1 N (g.j1 - g.j0) (g.i1 - g.i0 + 1) ∧ Shape3 (st.fieldU k).2 N (g.j1 - g.j0) (g.i1 - g.i0 + 1) ∧
    Shape3 (st.fieldV k).1 N (g.j1 - g.j0 + 1) (g.i1 - g.i0) ∧ Shape3 (st.fieldV k).2 N (g.j1 - g.j0 + 1) (g.i1 - g.i0) := by
  intro st
  obtain ⟨f0, rest, hfr⟩ := List.exists_cons_of_ne_nil hwf.hne
  have hmem : f0 ∈ s.frames := by rw [hfr]; exact List.mem_cons_self
  obtain ⟨sU, sV⟩ := window_shapes s N jmax imax hwf g hg f0 hmem
  have hU := fieldSeq_shape s.frames (s.forcingSetup g (nsteps + 1)).arrU (nsteps + 1) N _ _
    (by
      show Shape3 (shapeOf s.frames (tabulate _ _ _)) _ _ _
      rw [shapeOf_tabulate s.frames _ f0 rest hfr]; exact sU) k (by omega)
  have hV := fieldSeq_shape s.frames (s.forcingSetup g (nsteps + 1)).arrV (nsteps + 1) N _ _
    (by
      show Shape3 (shapeOf s.frames (tabulate _ _ _)) _ _ _
      rw [shapeOf_tabulate s.frames _ f0 rest hfr]; exact sV) k (by omega)
  exact ⟨hU.1, hU.2, hV.1, hV.2⟩

/-- `Whole.move_in_bounds` for one step: only the fields of step `n` need the shapes -/
theorem move_in_bounds_at (s : RomsSetup) (N : Int) (hc : ColumnsOK s.g N)
    (hH : Shape2 s.g.H (s.g.j1 - s.g.j0) (s.g.i1 - s.g.i0)) (hM : Shape2 s.g.M (s.g.j1 - s.g.j0) (s.g.i1 - s.g.i0))
    (hd : Shape2 s.g.dx (s.g.j1 - s.g.j0) (s.g.i1 - s.g.i0)) (n : Int)
    (hU : Shape3 (s.fieldU n.toNat).1 N (s.g.j1 - s.g.j0) (s.g.i1 - s.g.i0 + 1) ∧
          Shape3 (s.fieldU n.toNat).2 N (s.g.j1 - s.g.j0) (s.g.i1 - s.g.i0 + 1))
    (hV : Shape3 (s.fieldV n.toNat).1 N (s.g.j1 - s.g.j0 + 1) (s.g.i1 - s.g.i0) ∧
          Shape3 (s.fieldV n.toNat).2 N (s.g.j1 - s.g.j0 + 1) (s.g.i1 - s.g.i0))
    (p : RP) (hv : C09.Valid s.g p.x p.y) :
    ∃ q, trackerStep s.cfg s.g (s.oracle n p.x p.y p.z) 0 0 0
        (s.sign * RomsSetup.valRat (RomsSetup.lookupVar p.vars "w"))
      { x := p.x, y := p.y, z := p.z, alive := p.alive, active := p.active } = some q := by
  exact Whole.move_in_bounds
    { s with fieldU := fun _ => s.fieldU n.toNat, fieldV := fun _ => s.fieldV n.toNat } N hc hH hM hd
    (fun _ => hU) (fun _ => hV) n p hv

/-- **tracker_in_bounds** (C17 for the whole simulation): at every step `n ≤ nsteps` of the run of
    a well-shaped set-up whose level columns increase strictly (C12), the tracker finds every
    array element it reads for a particle at a valid position — `move` is `trackerStep` with a
    result, the out-of-range branch is not taken -/
theorem tracker_in_bounds (s : Sim) (N jmax imax : Int) (hwf : WF s N jmax imax) (g : GridM)
    (hg : mkGrid s.file s.sub = some g)
    (hcol : ∀ j i col, column g.zr j i = some col → col.Pairwise (· < ·))
    (rel : Rel) (nsteps : Nat) (rnd : Rat → Rat) (n : Nat) (hn : n ≤ nsteps) (p : RP)
    (hv : C09.Valid g p.x p.y) :
    let st := s.setup g (nsteps + 1) (rel.run 0 (nsteps + 1)) rnd
    ∃ q, trackerStep st.cfg g (st.oracle (n : Int) p.x p.y p.z) 0 0 0
        (st.sign * RomsSetup.valRat (RomsSetup.lookupVar p.vars "w"))
        { x := p.x, y := p.y, z := p.z, alive := p.alive, active := p.active } = some q ∧
      st.move (n : Int) p = { p with x := rnd q.x, y := rnd q.y, z := rnd q.z, alive := q.alive, active := q.active } := by
  intro st
  obtain ⟨-, -, -, -, -, -, sH, sM, sdx, szr⟩ := grid_shapes s N jmax imax hwf g hg
  have hc : ColumnsOK g N := ⟨hwf.hN, szr, hcol⟩
  obtain ⟨u1, u2, v1, v2⟩ := run_fields_shaped s N jmax imax hwf g hg rel nsteps rnd n hn
  obtain ⟨q, hq⟩ := move_in_bounds_at st N hc sH sM sdx (n : Int)
    (by rw [Int.toNat_natCast]; exact ⟨u1, u2⟩) (by rw [Int.toNat_natCast]; exact ⟨v1, v2⟩) p hv
  refine ⟨q, hq, ?_⟩
  simp only [RomsSetup.move, hq]
  rfl

/-! ### non-vacuity -/

/-- a concrete `2 × 2 × 2` array has the shape, and `mapNodes_shape` applies to it -/
example : Shape3 [[[1, 2], [3, 4]], [[5, 6], [7, 8]]] 2 2 2 ∧
    Shape3 (mapNodes [[[1, 2], [3, 4]], [[5, 6], [7, 8]]] (fun k j i => ((k + j + i : Nat) : Rat))) 2 2 2 := by
  have h : Shape3 [[[1, 2], [3, 4]], [[5, 6], [7, 8]]] 2 2 2 := by
    refine ⟨rfl, ?_, ?_⟩
    · intro P hP
      simp only [List.mem_cons, List.not_mem_nil, or_false] at hP
      rcases hP with rfl | rfl <;> rfl
    · intro P hP r hr
      simp only [List.mem_cons, List.not_mem_nil, or_false] at hP
      rcases hP with rfl | rfl <;>
        (simp only [List.mem_cons, List.not_mem_nil, or_false] at hr
         rcases hr with rfl | rfl <;> rfl)
  exact ⟨h, mapNodes_shape _ _ _ _ _ h⟩

/-- the window shapes on a concrete mask: `maskU` adds a column, `maskV` adds a row, and the
    u-window of a `2 × 2 × 3` raw array masked by them has the shape of the hypotheses of
    `Whole.move_in_bounds` -/
example : maskU [[1, 0], [1, 1]] = [[1, 0, 0], [1, 1, 1]] ∧ maskV [[1, 0], [1, 1]] = [[1, 0], [1, 0], [1, 1]] ∧
    readVel [[[1, 2, 3], [4, 5, 6]], [[7, 8, 9], [10, 11, 12]]] none (maskU [[1, 0], [1, 1]])
      = [[[1, 0, 0], [4, 5, 6]], [[7, 0, 0], [10, 11, 12]]] := by
  decide +kernel

/-- a concrete set-up: a `5 × 5` file with two levels, the default subgrid, two frames -/
def exSim : Sim :=
  { start := 0, stop := 120, dt := 60, rev := false, ref := none,
    file := { h := List.replicate 5 (List.replicate 5 10), mask := List.replicate 5 (List.replicate 5 1),
              dx := List.replicate 5 (List.replicate 5 100), hc := 0, CsR := [-3/4, -1/4], vtransform := 1 },
    sub := none, frames := [⟨0, 0, 0⟩, ⟨2, 0, 1⟩],
    rawU := fun _ _ => List.replicate 2 (List.replicate 5 (List.replicate 4 1)),
    rawV := fun _ _ => List.replicate 2 (List.replicate 4 (List.replicate 5 1)),
    rawS := [], continuous := false, freq := 60, rows := [], pvNames := [], ivDefaults := [],
    scheme := .EF, vertAdv := false, ageing := false, kills := fun _ => [], period := 1, sparse := true,
    numrec := 0, stem := "out", suffix := ".nc", outIv := [], outPv := [], warm := none }

theorem replicate_shape2 (a b : Nat) (v : Rat) :
    Shape2 (List.replicate a (List.replicate b v)) (a : Int) (b : Int) := by
  refine ⟨by simp, ?_⟩
  intro r hr
  rw [List.eq_of_mem_replicate hr]; simp

theorem replicate_shape3 (n a b : Nat) (v : Rat) :
    Shape3 (List.replicate n (List.replicate a (List.replicate b v))) (n : Int) (a : Int) (b : Int) := by
  refine ⟨by simp, ?_, ?_⟩
  · intro P hP
    rw [List.eq_of_mem_replicate hP]; simp
  · intro P hP r hr
    rw [List.eq_of_mem_replicate hP] at hr
    rw [List.eq_of_mem_replicate hr]; simp

/-- the hypotheses of `tracker_in_bounds` are satisfiable together: the set-up is well-formed, its
    grid is accepted, and the grid has a valid position -/
example : WF exSim 2 5 5 ∧
    ∃ g, mkGrid exSim.file exSim.sub = some g ∧ C09.Valid g 2 2 := by
  refine ⟨⟨by omega, rfl, replicate_shape2 5 5 10, replicate_shape2 5 5 1, replicate_shape2 5 5 100,
    by simp [exSim], fun fr _ => replicate_shape3 2 5 4 1, fun fr _ => replicate_shape3 2 4 5 1⟩, ?_⟩
  have h : (mkGrid exSim.file exSim.sub).any
      (fun g => g.ingrid 2 2 && (g.atsea 2 2 == some true)) = true := by decide +kernel
  obtain ⟨g, hg, hp⟩ := (Option.any_eq_true _ _).1 h
  simp only [Bool.and_eq_true, beq_iff_eq] at hp
  exact ⟨g, hg, hp.1, hp.2⟩


end Ladim.SimBounds
