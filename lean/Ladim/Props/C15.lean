import Ladim.Model.Tracker
import Mathlib.Tactic.Linarith
import Mathlib.Algebra.Order.Field.Rat
/-
C15 — depth stays within the water column.  Property theorems about `reflect`, `moveV`,
`trackerStep` of `Ladim.Model.Tracker`.
-/

namespace Ladim.C15
open Ladim

/-- the vertical displacement of one step -/
def vdisp (cfg : TrkCfg) (wd wa : Rat) : Rat :=
  (if cfg.vertDiff then wd * cfg.dt else 0) + (if cfg.vertAdv then wa * cfg.dt else 0)

/-- **reflect_spec**: reflecting boundaries at the surface `0` and at the bottom `h` -/
theorem reflect_spec (h z : Rat) (hh : 0 ≤ h) :
    (0 ≤ z → z ≤ h → reflect h z = z) ∧
    (z < 0 → -z ≤ h → reflect h z = -z) ∧
    (h < z → reflect h z = 2 * h - z) := by
  refine ⟨fun h0 h1 => ?_, fun h0 h1 => ?_, fun h1 => ?_⟩
  · simp only [reflect]
    rw [if_neg (not_lt.mpr h0), if_neg (not_lt.mpr h1)]
  · simp only [reflect]
    rw [if_pos h0, if_neg (not_lt.mpr h1)]
  · have h0 : ¬ z < 0 := not_lt.mpr (le_trans hh h1.le)
    simp only [reflect]
    rw [if_neg h0, if_pos h1]

/-- a depth less than `h` above the surface or below the bottom is reflected into the column -/
theorem reflect_in_column (h z : Rat) (hlo : -h < z) (hhi : z < 2 * h) :
    0 ≤ reflect h z ∧ reflect h z ≤ h := by
  simp only [reflect]
  split_ifs <;> constructor <;> linarith

/-- the vertical move adds the displacement and reflects, using the depth of the start cell -/
theorem moveV_eq (cfg : TrkCfg) (g : GridM) (wd wa x0 y0 z z' : Rat)
    (hon : (cfg.vertDiff || cfg.vertAdv) = true) (h : moveV cfg g wd wa x0 y0 z = some z') :
    ∃ hd, g.depth x0 y0 = some hd ∧ z' = reflect hd (z + vdisp cfg wd wa) := by
  simp only [moveV, hon, if_true, Option.bind_eq_bind, Option.bind_eq_some_iff, Option.pure_def,
    Option.some.injEq] at h
  obtain ⟨hd, hdep, hz⟩ := h
  refine ⟨hd, hdep, ?_⟩
  rw [← hz]
  congr 1
  unfold vdisp
  split_ifs <;> linarith

/-- **depth_in_column**: with vertical diffusion and/or advection on, a particle that starts
    inside the column `0 ≤ z ≤ h` (h = depth of the cell occupied when the step began) and whose
    displacement is smaller than `h` ends inside the column. -/
theorem depth_in_column (cfg : TrkCfg) (g : GridM) (wd wa x0 y0 z z' hd : Rat)
    (hon : (cfg.vertDiff || cfg.vertAdv) = true) (hdepth : g.depth x0 y0 = some hd)
    (hz : 0 ≤ z ∧ z ≤ hd) (hsmall : |vdisp cfg wd wa| < hd)
    (h : moveV cfg g wd wa x0 y0 z = some z') : 0 ≤ z' ∧ z' ≤ hd := by
  obtain ⟨hd', hdep', hz'⟩ := moveV_eq cfg g wd wa x0 y0 z z' hon h
  rw [hdepth] at hdep'
  cases hdep'
  rw [hz']
  have := abs_lt.mp hsmall
  have := reflect_in_column hd (z + vdisp cfg wd wa) (by linarith [hz.1, this.1]) (by linarith [hz.2, this.2])
  exact this

/-- the hypothesis is needed: a displacement of `h` or more can leave the column -/
theorem depth_in_column_sharp : ∃ h z d : Rat, 0 ≤ z ∧ z ≤ h ∧ |d| = 2 * h ∧ ¬ (reflect h (z + d) ≤ h ∧ 0 ≤ reflect h (z + d)) := by
  refine ⟨1, 1, 2, by norm_num, by norm_num, by norm_num, ?_⟩
  norm_num [reflect]

/-- **depth_unchanged_when_off**: with both switched off the tracker leaves the depth
    unchanged (for every horizontal scheme, forcing and kick). -/
theorem depth_unchanged_when_off (cfg : TrkCfg) (g : GridM) (vel : VelOracle) (du dv wd wa : Rat)
    (p q : Part) (hoff : cfg.vertDiff = false ∧ cfg.vertAdv = false)
    (h : trackerStep cfg g vel du dv wd wa p = some q) : q.z = p.z := by
  simp only [trackerStep, moveV, hoff.1, hoff.2, Option.bind_eq_bind, Option.bind_eq_some_iff,
    Option.pure_def, Option.some.injEq, Bool.or_self, Bool.false_eq_true, if_false] at h
  obtain ⟨p1, _, z, hz, hq⟩ := h
  rw [← hq, ← hz]

/-- the horizontal scheme does not touch the depth, and the vertical move does not depend on it -/
theorem depth_of_step (cfg : TrkCfg) (g : GridM) (vel : VelOracle) (du dv wd wa : Rat) (p q : Part)
    (h : trackerStep cfg g vel du dv wd wa p = some q) :
    moveV cfg g wd wa p.x p.y p.z = some q.z := by
  simp only [trackerStep, Option.bind_eq_bind, Option.bind_eq_some_iff,
    Option.pure_def, Option.some.injEq] at h
  obtain ⟨p1, _, z, hz, hq⟩ := h
  rw [← hq]
  exact hz

end Ladim.C15
