import Ladim.Props.Simulation
import Ladim.Props.C19
import Ladim.Props.C13
import Ladim.Props.C05
/-
The remaining per-property statements carried to `Sim.run` (the whole program): the step
protocol (C19), identifiers in the records (C05), and the time coordinate of the records (C13).
-/

namespace Ladim.SimCorollaries
open Ladim

/-- in a strictly increasing list of naturals the `k`-th element is at least `k` -/
theorem getElem_ge_of_pairwise_lt (l : List Nat) (h : l.Pairwise (· < ·)) :
    ∀ k (hk : k < l.length), k ≤ l[k] := by
  intro k
  induction k with
  | zero => intro _; exact Nat.zero_le _
  | succ k ih =>
    intro hk
    have h1 := ih (by omega)
    have h2 := (List.pairwise_iff_getElem.1 h) k (k + 1) (by omega) hk (by omega)
    omega

/-- **protocol** (C19, cold start): the run calls, at the steps `0 … nsteps−1` in order, exactly
    time, release, forcing, output (iff the step is an output step), tracker, IBM — once each, in
    that order -/
theorem protocol (s : Sim) (rnd : Rat → Rat) (res : SimResult) (tk : TK) (g : GridM) (rel : Rel)
    (hp : Simulation.Parts s rnd res tk g rel) (hw : s.warm = none) :
    res.final.log = (List.range res.nsteps).flatMap (fun (k : Nat) =>
      [((k : Int), Call.time), ((k : Int), Call.release), ((k : Int), Call.forcing)] ++
      (if Int.fmod (k : Int) s.period == 0 then [((k : Int), Call.output)] else []) ++
      [((k : Int), Call.tracker), ((k : Int), Call.ibm)]) := by
  have hf := hp.hfinal
  rw [hw] at hf
  rw [hf, C19.call_log]
  apply List.flatMap_congr
  intro k _
  have h0 : decide (0 ≤ (k : Int)) = true := by simp
  show C19.stepLog _ _ = _
  unfold C19.stepLog
  rw [h0, Bool.true_and]
  rfl

/-- **protocol_warm** (C19, warm start): the constructor performs release, forcing, tracker, IBM
    of step 0 without clock update and without output; the loop then runs the steps `1 … nsteps−1` -/
theorem protocol_warm (s : Sim) (rnd : Rat → Rat) (res : SimResult) (tk : TK) (g : GridM) (rel : Rel)
    (hp : Simulation.Parts s rnd res tk g rel) (w : WarmState) (hw : s.warm = some w) :
    res.final.log = [(0, Call.release), (0, Call.forcing), (0, Call.tracker), (0, Call.ibm)] ++
      (List.range (res.nsteps - 1)).flatMap (fun (k : Nat) =>
        [((k : Int) + 1, Call.time), ((k : Int) + 1, Call.release), ((k : Int) + 1, Call.forcing)] ++
        (if Int.fmod ((k : Int) + 1) s.period == 0 then [((k : Int) + 1, Call.output)] else []) ++
        [((k : Int) + 1, Call.tracker), ((k : Int) + 1, Call.ibm)]) := by
  have hf := hp.hfinal
  rw [hw] at hf
  rw [hf, C19.call_log_warm]
  refine congrArg (List.append _) ?_
  apply List.flatMap_congr
  intro k _
  have h0 : decide (0 ≤ (k : Int) + 1) = true := by
    simp only [decide_eq_true_eq]; omega
  show C19.stepLog _ _ = _
  unfold C19.stepLog
  rw [h0, Bool.true_and]
  rfl

/-- **record_pids** (C05, cold start, sparse layout): in every record the identifiers are
    strictly increasing and `pid[k] ≥ k` -/
theorem record_pids (s : Sim) (rnd : Rat → Rat) (res : SimResult) (tk : TK) (g : GridM) (rel : Rel)
    (hp : Simulation.Parts s rnd res tk g rel) (hw : s.warm = none) (hsp : s.sparse = true)
    (n : Nat) (hn : n < res.nsteps) (hdue : Int.fmod (n : Int) s.period = 0) (parts : List RP)
    (hrec : ((n : Int), parts) ∈ res.final.records) :
    (parts.map (·.pid)).Pairwise (· < ·) ∧ ∀ k (hk : k < parts.length), k ≤ (parts[k]).pid := by
  have hspec := (Simulation.records_are_spec s rnd res tk g rel hp hw hsp n hn hdue).2 parts hrec
  have hsorted := C14.record_pids_sorted (Simulation.envOf s g rel res.nsteps rnd)
    (Whole.env_sane (s.setup g (res.nsteps + 1) (rel.run 0 (res.nsteps + 1)) rnd)) n
  rw [← hspec] at hsorted
  refine ⟨hsorted, ?_⟩
  intro k hk
  have := getElem_ge_of_pairwise_lt (parts.map (·.pid)) hsorted k (by simpa using hk)
  simpa using this

/-- **record_time** (C13): the time coordinate the output module is given for the record of step
    `n` is the clock's reading at step `n` — `start + n·dt` forward, `start − n·dt` reversed — as an
    offset from the reference time (the given one, else the earlier of start and stop) -/
theorem record_time (s : Sim) (rnd : Rat → Rat) (res : SimResult) (tk : TK) (g : GridM) (rel : Rel)
    (hp : Simulation.Parts s rnd res tk g rel) (n : Nat) :
    (s.outSpec tk (rel.run 0 (res.nsteps + 1))).time (n : Int) =
      (((if s.rev then s.start - n * s.dt else s.start + n * s.dt) -
        (match s.ref with | some r => r | none => min s.start s.stop) : Int) : Rat) := by
  have st := C13.init_started hp.htk
  have href : tk.ref = (match s.ref with | some r => r | none => min s.start s.stop) := by
    have h := hp.htk
    unfold TK.init at h
    simp only at h
    split at h
    · cases h
    · split at h
      · cases h
      · injection h with h
        subst h
        rfl
  show ((tk.step2time (n : Int) - tk.ref : Int) : Rat) = _
  unfold TK.step2time
  rw [st.hrev, st.hstart, st.hdt, href]

end Ladim.SimCorollaries
