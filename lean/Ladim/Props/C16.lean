import Ladim.Model.Sample
import Ladim.Model.Grid
import Mathlib.Data.Rat.Floor
import Mathlib.Tactic.Linarith
import Mathlib.Tactic.Ring
import Mathlib.Tactic.FieldSimp
import Mathlib.Tactic.Positivity
import Mathlib.Algebra.Order.Field.Rat
import Mathlib.Data.List.Basic
/-
C16 — longitude/latitude ↔ grid coordinates; the 2-D sampling utility.
Property theorems about `sample2D`, `bilinAt`, `bilinInvStep`, `bilinInv` of
`Ladim.Model.Sample` (`ladim/sample.py`).

`Grid.xy2ll(X, Y)` is by definition `sample2D(lon, X − i0, Y − j0)` and the lon/lat written to
the output are `xy2ll` of the positions of the same record, so the output statement of the
property is `sample2D_inside` applied to the grid's coordinate arrays.
-/

namespace Ladim.C16
open Ladim

/-- a rectangular 2-D array of shape `(rows, cols)` -/
structure Rect (F : Field2) (rows cols : Int) : Prop where
  rws : (F.length : Int) = rows
  cls : ∀ r ∈ F, (r.length : Int) = cols

/-- the point is inside the array: `0 ≤ x < cols − 1`, `0 ≤ y < rows − 1` -/
def Inside (rows cols : Int) (x y : Rat) : Prop := 0 ≤ x ∧ x < cols - 1 ∧ 0 ≤ y ∧ y < rows - 1

/-! ### helpers -/

theorem getI_some {α} (l : List α) (i : Int) (h0 : 0 ≤ i) (h1 : i < (l.length : Int)) :
    ∃ v, getI l i = some v ∧ v ∈ l := by
  unfold getI
  rw [if_pos h0]
  have h : i.toNat < l.length := by omega
  exact ⟨l[i.toNat], List.getElem?_eq_getElem h, List.getElem_mem h⟩

theorem get2_some (F : Field2) (rows cols : Int) (hs : Rect F rows cols) (j i : Int)
    (hj : 0 ≤ j ∧ j < rows) (hi : 0 ≤ i ∧ i < cols) : ∃ v, get2 F j i = some v := by
  obtain ⟨r, hr, hrm⟩ := getI_some F j hj.1 (by rw [hs.rws]; exact hj.2)
  obtain ⟨v, hv, _⟩ := getI_some r i hi.1 (by rw [hs.cls r hrm]; exact hi.2)
  exact ⟨v, by simp only [get2, hr, hv, Option.bind_some]⟩

/-- the length of the first row of a non-empty rectangular array -/
theorem rect_head (F : Field2) (rows cols : Int) (hF : Rect F rows cols) (h1 : 1 ≤ rows) :
    ((F.headD []).length : Int) = cols := by
  cases F with
  | nil => have := hF.rws; simp at this; omega
  | cons r t => exact hF.cls r (by simp)

theorem pyTrunc_nonneg_eq (x : ℚ) (hx : 0 ≤ x) : pyTrunc x = ⌊x⌋ := by
  unfold pyTrunc; rw [if_pos hx]; rfl

theorem pyTrunc_frac (x : ℚ) (hx : 0 ≤ x) : 0 ≤ x - pyTrunc x ∧ x - pyTrunc x < 1 := by
  rw [pyTrunc_nonneg_eq x hx]
  exact ⟨by linarith [Int.floor_le x], by linarith [Int.lt_floor_add_one x]⟩

theorem pyTrunc_range (x : ℚ) (c : Int) (h0 : 0 ≤ x) (h1 : x < c - 1) :
    0 ≤ pyTrunc x ∧ pyTrunc x + 1 < c := by
  rw [pyTrunc_nonneg_eq x h0]
  refine ⟨Int.floor_nonneg.2 h0, ?_⟩
  have h2 : ((⌊x⌋ + 1 : Int) : ℚ) < (c : ℚ) := by
    push_cast; linarith [Int.floor_le x]
  exact_mod_cast h2

/-- the "outside" test of `sample2D` -/
def outB (F : Field2) (x y : Rat) : Bool :=
  decide (x < 0) || decide (x ≥ (((F.headD []).length : Int) : Rat) - 1) || decide (y < 0) ||
    decide (y ≥ ((F.length : Int) : Rat) - 1)

theorem outB_false (F : Field2) (rows cols : Int) (hF : Rect F rows cols) (x y : Rat)
    (h : Inside rows cols x y) : outB F x y = false := by
  obtain ⟨h1, h2, h3, h4⟩ := h
  have hr : 1 ≤ rows := by
    have : (0 : ℚ) < (rows : ℚ) - 1 := lt_of_le_of_lt h3 h4
    have : ((1 : Int) : ℚ) < (rows : ℚ) := by push_cast; linarith
    have : (1 : Int) < rows := by exact_mod_cast this
    omega
  unfold outB
  rw [rect_head F rows cols hF hr, hF.rws]
  simp only [Bool.or_eq_false_iff, decide_eq_false_iff_not, not_lt, ge_iff_le, not_le]
  exact ⟨⟨⟨h1, h2⟩, h3⟩, h4⟩

theorem outB_true (F : Field2) (rows cols : Int) (hF : Rect F rows cols) (hr : 1 ≤ rows) (x y : Rat)
    (h : ¬ Inside rows cols x y) : outB F x y = true := by
  unfold outB
  rw [rect_head F rows cols hF hr, hF.rws]
  simp only [Bool.or_eq_true, decide_eq_true_eq, ge_iff_le]
  unfold Inside at h
  by_contra hc
  push Not at hc
  exact h ⟨hc.1.1.1, hc.1.1.2, hc.1.2, hc.2⟩

/-- the four reads around an inside point succeed -/
theorem reads_inside (F : Field2) (rows cols : Int) (hF : Rect F rows cols) (x y : Rat)
    (h : Inside rows cols x y) :
    ∃ f00 f01 f10 f11, get2 F (pyTrunc y) (pyTrunc x) = some f00 ∧
      get2 F (pyTrunc y + 1) (pyTrunc x) = some f01 ∧
      get2 F (pyTrunc y) (pyTrunc x + 1) = some f10 ∧
      get2 F (pyTrunc y + 1) (pyTrunc x + 1) = some f11 := by
  obtain ⟨h1, h2, h3, h4⟩ := h
  obtain ⟨hi0, hi1⟩ := pyTrunc_range x cols h1 h2
  obtain ⟨hj0, hj1⟩ := pyTrunc_range y rows h3 h4
  obtain ⟨f00, e00⟩ := get2_some F rows cols hF (pyTrunc y) (pyTrunc x) ⟨hj0, by omega⟩ ⟨hi0, by omega⟩
  obtain ⟨f01, e01⟩ := get2_some F rows cols hF (pyTrunc y + 1) (pyTrunc x) ⟨by omega, hj1⟩ ⟨hi0, by omega⟩
  obtain ⟨f10, e10⟩ := get2_some F rows cols hF (pyTrunc y) (pyTrunc x + 1) ⟨hj0, by omega⟩ ⟨by omega, hi1⟩
  obtain ⟨f11, e11⟩ := get2_some F rows cols hF (pyTrunc y + 1) (pyTrunc x + 1) ⟨by omega, hj1⟩ ⟨by omega, hi1⟩
  exact ⟨f00, f01, f10, f11, e00, e01, e10, e11⟩

/-- evaluation of `sample2D` without a mask at a point that passes the inside test -/
theorem sample2D_eval_nomask (F : Field2) (x y undef : Rat) (outside : Option Rat)
    (hout : outB F x y = false) (f00 f01 f10 f11 : Rat)
    (e00 : get2 F (pyTrunc y) (pyTrunc x) = some f00) (e01 : get2 F (pyTrunc y + 1) (pyTrunc x) = some f01)
    (e10 : get2 F (pyTrunc y) (pyTrunc x + 1) = some f10)
    (e11 : get2 F (pyTrunc y + 1) (pyTrunc x + 1) = some f11) :
    sample2D F x y none undef outside =
      .value ((1 - (x - pyTrunc x)) * (1 - (y - pyTrunc y)) * f00 + (1 - (x - pyTrunc x)) * (y - pyTrunc y) * f01
              + (x - pyTrunc x) * (1 - (y - pyTrunc y)) * f10 + (x - pyTrunc x) * (y - pyTrunc y) * f11) := by
  unfold outB at hout
  unfold sample2D
  simp only [hout, Bool.false_and, Bool.false_eq_true, if_false, e00, e01, e10, e11]
  cases outside <;> simp

/-- **sample2D_inside**: inside the grid, without a mask, the result is the bilinear
    interpolation of the four surrounding nodes (no read outside the array, no exception). -/
theorem sample2D_inside (F : Field2) (rows cols : Int) (hF : Rect F rows cols) (x y undef : Rat)
    (outside : Option Rat) (h : Inside rows cols x y) :
    ∃ f00 f01 f10 f11, get2 F (pyTrunc y) (pyTrunc x) = some f00 ∧ get2 F (pyTrunc y + 1) (pyTrunc x) = some f01 ∧
      get2 F (pyTrunc y) (pyTrunc x + 1) = some f10 ∧ get2 F (pyTrunc y + 1) (pyTrunc x + 1) = some f11 ∧
      sample2D F x y none undef outside =
        .value ((1 - (x - pyTrunc x)) * (1 - (y - pyTrunc y)) * f00 + (1 - (x - pyTrunc x)) * (y - pyTrunc y) * f01
                + (x - pyTrunc x) * (1 - (y - pyTrunc y)) * f10 + (x - pyTrunc x) * (y - pyTrunc y) * f11) := by
  obtain ⟨f00, f01, f10, f11, e00, e01, e10, e11⟩ := reads_inside F rows cols hF x y h
  exact ⟨f00, f01, f10, f11, e00, e01, e10, e11,
    sample2D_eval_nomask F x y undef outside (outB_false F rows cols hF x y h) f00 f01 f10 f11 e00 e01 e10 e11⟩

/-- **sample2D_exact_bilinear**: exact on every field of the form `a + b·i + c·j + d·i·j` -/
theorem sample2D_exact_bilinear (F : Field2) (rows cols : Int) (hF : Rect F rows cols) (a b c d : Rat)
    (hlin : ∀ j i v, get2 F j i = some v → v = a + b * i + c * j + d * i * j)
    (x y undef : Rat) (outside : Option Rat) (h : Inside rows cols x y) :
    sample2D F x y none undef outside = .value (a + b * x + c * y + d * x * y) := by
  obtain ⟨f00, f01, f10, f11, e00, e01, e10, e11, hs⟩ := sample2D_inside F rows cols hF x y undef outside h
  rw [hs, hlin _ _ _ e00, hlin _ _ _ e01, hlin _ _ _ e10, hlin _ _ _ e11]
  congr 1
  push_cast
  ring

theorem convex2_lo (lo a b t : ℚ) (ha : lo ≤ a) (hb : lo ≤ b) (h0 : 0 ≤ t) (h1 : t ≤ 1) :
    lo ≤ t * a + (1 - t) * b := by
  nlinarith [mul_nonneg h0 (sub_nonneg.2 ha), mul_nonneg (sub_nonneg.2 h1) (sub_nonneg.2 hb)]

theorem convex2_hi (hi a b t : ℚ) (ha : a ≤ hi) (hb : b ≤ hi) (h0 : 0 ≤ t) (h1 : t ≤ 1) :
    t * a + (1 - t) * b ≤ hi := by
  nlinarith [mul_nonneg h0 (sub_nonneg.2 ha), mul_nonneg (sub_nonneg.2 h1) (sub_nonneg.2 hb)]

/-- **sample2D_convex**: a convex combination of the four corner values -/
theorem sample2D_convex (F : Field2) (rows cols : Int) (hF : Rect F rows cols) (lo hi : Rat)
    (hb : ∀ j i v, get2 F j i = some v → lo ≤ v ∧ v ≤ hi) (x y undef : Rat) (outside : Option Rat)
    (h : Inside rows cols x y) :
    ∃ v, sample2D F x y none undef outside = .value v ∧ lo ≤ v ∧ v ≤ hi := by
  obtain ⟨f00, f01, f10, f11, e00, e01, e10, e11, hs⟩ := sample2D_inside F rows cols hF x y undef outside h
  refine ⟨_, hs, ?_⟩
  obtain ⟨hp0, hp1⟩ := pyTrunc_frac x h.1
  obtain ⟨hq0, hq1⟩ := pyTrunc_frac y h.2.2.1
  generalize x - (pyTrunc x : ℚ) = p at *
  generalize y - (pyTrunc y : ℚ) = q at *
  have b00 := hb _ _ _ e00
  have b01 := hb _ _ _ e01
  have b10 := hb _ _ _ e10
  have b11 := hb _ _ _ e11
  have e : (1 - p) * (1 - q) * f00 + (1 - p) * q * f01 + p * (1 - q) * f10 + p * q * f11
      = q * (p * f11 + (1 - p) * f01) + (1 - q) * (p * f10 + (1 - p) * f00) := by ring
  rw [e]
  constructor
  · apply convex2_lo _ _ _ _ _ _ hq0 hq1.le <;> apply convex2_lo _ _ _ _ _ _ hp0 hp1.le <;>
      simp only [b00, b01, b10, b11]
  · apply convex2_hi _ _ _ _ _ _ hq0 hq1.le <;> apply convex2_hi _ _ _ _ _ _ hp0 hp1.le <;>
      simp only [b00, b01, b10, b11]

/-- **mask_ignored**: with a 0/1 mask the masked nodes carry no weight and the others are
    renormalised; if every surrounding node is masked the undefined value is returned. -/
theorem mask_ignored (F M : Field2) (rows cols : Int) (hF : Rect F rows cols) (hM : Rect M rows cols)
    (h01 : ∀ j i v, get2 M j i = some v → v = 0 ∨ v = 1) (x y undef : Rat) (outside : Option Rat)
    (h : Inside rows cols x y) :
    ∃ f00 f01 f10 f11 m00 m01 m10 m11,
      get2 F (pyTrunc y) (pyTrunc x) = some f00 ∧ get2 F (pyTrunc y + 1) (pyTrunc x) = some f01 ∧
      get2 F (pyTrunc y) (pyTrunc x + 1) = some f10 ∧ get2 F (pyTrunc y + 1) (pyTrunc x + 1) = some f11 ∧
      get2 M (pyTrunc y) (pyTrunc x) = some m00 ∧ get2 M (pyTrunc y + 1) (pyTrunc x) = some m01 ∧
      get2 M (pyTrunc y) (pyTrunc x + 1) = some m10 ∧ get2 M (pyTrunc y + 1) (pyTrunc x + 1) = some m11 ∧
      let p := x - pyTrunc x
      let q := y - pyTrunc y
      let w00 := m00 * ((1 - p) * (1 - q)); let w01 := m01 * ((1 - p) * q)
      let w10 := m10 * (p * (1 - q)); let w11 := m11 * (p * q)
      let sw := w00 + w01 + w10 + w11
      sample2D F x y (some M) undef outside =
        .value (if sw = 0 then undef else (w00 * f00 + w01 * f01 + w10 * f10 + w11 * f11) / sw) := by
  obtain ⟨f00, f01, f10, f11, e00, e01, e10, e11⟩ := reads_inside F rows cols hF x y h
  obtain ⟨m00, m01, m10, m11, g00, g01, g10, g11⟩ := reads_inside M rows cols hM x y h
  refine ⟨f00, f01, f10, f11, m00, m01, m10, m11, e00, e01, e10, e11, g00, g01, g10, g11, ?_⟩
  have hout := outB_false F rows cols hF x y h
  obtain ⟨hp0, hp1⟩ := pyTrunc_frac x h.1
  obtain ⟨hq0, hq1⟩ := pyTrunc_frac y h.2.2.1
  have n00 : 0 ≤ m00 := by rcases h01 _ _ _ g00 with r | r <;> simp [r]
  have n01 : 0 ≤ m01 := by rcases h01 _ _ _ g01 with r | r <;> simp [r]
  have n10 : 0 ≤ m10 := by rcases h01 _ _ _ g10 with r | r <;> simp [r]
  have n11 : 0 ≤ m11 := by rcases h01 _ _ _ g11 with r | r <;> simp [r]
  unfold outB at hout
  unfold sample2D
  simp only [hout, Bool.false_and, Bool.false_eq_true, if_false, e00, e01, e10, e11, g00, g01, g10, g11]
  generalize x - (pyTrunc x : ℚ) = p at *
  generalize y - (pyTrunc y : ℚ) = q at *
  have hsw : 0 ≤ m00 * ((1 - p) * (1 - q)) + m01 * ((1 - p) * q) + m10 * (p * (1 - q)) + m11 * (p * q) := by
    have := sub_nonneg.2 hp1.le
    have := sub_nonneg.2 hq1.le
    positivity
  generalize m00 * ((1 - p) * (1 - q)) + m01 * ((1 - p) * q) + m10 * (p * (1 - q)) + m11 * (p * q) = sw at *
  have key : (if (if sw = 0 then -1 else sw) ≤ 0 then undef
      else (m00 * ((1 - p) * (1 - q)) * f00 + m01 * ((1 - p) * q) * f01 + m10 * (p * (1 - q)) * f10 +
        m11 * (p * q) * f11) / (if sw = 0 then -1 else sw))
      = if sw = 0 then undef else (m00 * ((1 - p) * (1 - q)) * f00 + m01 * ((1 - p) * q) * f01 +
        m10 * (p * (1 - q)) * f10 + m11 * (p * q) * f11) / sw := by
    by_cases hz : sw = 0
    · simp [hz]
    · have : ¬ sw ≤ 0 := fun hle => hz (le_antisymm hle hsw)
      simp [hz, this]
  cases outside <;> simp only [key]

/-- **outside_value_returned**: outside the grid the requested substitute is returned — for
    every substitute, `0` included — and without one the call raises. -/
theorem outside_value_returned (F : Field2) (rows cols : Int) (hF : Rect F rows cols) (h2 : 2 ≤ rows ∧ 2 ≤ cols)
    (x y undef ov : Rat) (mask : Option Field2) (hM : ∀ M, mask = some M → Rect M rows cols)
    (hout : ¬ Inside rows cols x y) :
    sample2D F x y mask undef (some ov) = .value ov ∧ sample2D F x y mask undef none = .raised := by
  have ho := outB_true F rows cols hF (by omega) x y hout
  unfold outB at ho
  constructor
  · obtain ⟨f00, e00⟩ := get2_some F rows cols hF 0 0 ⟨by omega, by omega⟩ ⟨by omega, by omega⟩
    obtain ⟨f01, e01⟩ := get2_some F rows cols hF (0 + 1) 0 ⟨by omega, by omega⟩ ⟨by omega, by omega⟩
    obtain ⟨f10, e10⟩ := get2_some F rows cols hF 0 (0 + 1) ⟨by omega, by omega⟩ ⟨by omega, by omega⟩
    obtain ⟨f11, e11⟩ := get2_some F rows cols hF (0 + 1) (0 + 1) ⟨by omega, by omega⟩ ⟨by omega, by omega⟩
    unfold sample2D
    cases mask with
    | none =>
      simp only [ho, Option.isNone_some, Bool.and_false, Bool.false_eq_true, if_false, if_true, e00, e01, e10, e11]
    | some M =>
      have hMr := hM M rfl
      obtain ⟨m00, g00⟩ := get2_some M rows cols hMr 0 0 ⟨by omega, by omega⟩ ⟨by omega, by omega⟩
      obtain ⟨m01, g01⟩ := get2_some M rows cols hMr (0 + 1) 0 ⟨by omega, by omega⟩ ⟨by omega, by omega⟩
      obtain ⟨m10, g10⟩ := get2_some M rows cols hMr 0 (0 + 1) ⟨by omega, by omega⟩ ⟨by omega, by omega⟩
      obtain ⟨m11, g11⟩ := get2_some M rows cols hMr (0 + 1) (0 + 1) ⟨by omega, by omega⟩ ⟨by omega, by omega⟩
      simp only [ho, Option.isNone_some, Bool.and_false, Bool.false_eq_true, if_false, if_true, e00, e01, e10, e11,
        g00, g01, g10, g11]
  · unfold sample2D
    simp only [ho, Option.isNone_none, Bool.and_true, if_true]

/-! ### the inverse: `bilin_inv` -/

/-- an affine coordinate array `F[i][j] = f0 + a·i + b·j` -/
def Affine (F : Field2) (f0 a b : Rat) : Prop := ∀ i j v, get2 F i j = some v → v = f0 + a * i + b * j

/-- the clamped cell index of `bilinInvStep` -/
def cellIdx (F : Field2) (x y : Rat) : Int × Int :=
  (max 0 (min (pyTrunc x) ((F.length : Int) - 2)), max 0 (min (pyTrunc y) (((F.headD []).length : Int) - 2)))

/-- the value of one Newton step from the eight node values of the cell `(I, J)` -/
def stepVal (f g x y : Rat) (I J : Int) (f00 f10 f01 f11 g00 g10 g01 g11 : Rat) : Rat × Rat × Rat :=
  let p := x - I
  let q := y - J
  let Fs := (1 - p) * (1 - q) * f00 + p * (1 - q) * f10 + (1 - p) * q * f01 + p * q * f11
  let Gs := (1 - p) * (1 - q) * g00 + p * (1 - q) * g10 + (1 - p) * q * g01 + p * q * g11
  let H := (Fs - f) * (Fs - f) + (Gs - g) * (Gs - g)
  let Fx := (1 - q) * (f10 - f00) + q * (f11 - f01)
  let Fy := (1 - p) * (f01 - f00) + p * (f11 - f10)
  let Gx := (1 - q) * (g10 - g00) + q * (g11 - g01)
  let Gy := (1 - p) * (g01 - g00) + p * (g11 - g10)
  let det := Fx * Gy - Fy * Gx
  (x - (Gy * (Fs - f) - Fy * (Gs - g)) / det, y - (-Gx * (Fs - f) + Fx * (Gs - g)) / det, H)

theorem bilinInvStep_eval (F G : Field2) (f g x y : Rat) (f00 f10 f01 f11 g00 g10 g01 g11 : Rat)
    (e00 : get2 F (cellIdx F x y).1 (cellIdx F x y).2 = some f00)
    (e10 : get2 F ((cellIdx F x y).1 + 1) (cellIdx F x y).2 = some f10)
    (e01 : get2 F (cellIdx F x y).1 ((cellIdx F x y).2 + 1) = some f01)
    (e11 : get2 F ((cellIdx F x y).1 + 1) ((cellIdx F x y).2 + 1) = some f11)
    (k00 : get2 G (cellIdx F x y).1 (cellIdx F x y).2 = some g00)
    (k10 : get2 G ((cellIdx F x y).1 + 1) (cellIdx F x y).2 = some g10)
    (k01 : get2 G (cellIdx F x y).1 ((cellIdx F x y).2 + 1) = some g01)
    (k11 : get2 G ((cellIdx F x y).1 + 1) ((cellIdx F x y).2 + 1) = some g11) :
    bilinInvStep F G f g x y
      = some (stepVal f g x y (cellIdx F x y).1 (cellIdx F x y).2 f00 f10 f01 f11 g00 g10 g01 g11) := by
  simp only [cellIdx] at e00 e10 e01 e11 k00 k10 k01 k11
  simp only [bilinInvStep, bilinAt, e00, e10, e01, e11, k00, k10, k01, k11, bind, Option.bind_some, pure,
    stepVal, cellIdx]

/-- all eight reads of one Newton step succeed -/
theorem step_reads (F G : Field2) (n m : Int) (hF : Rect F n m) (hG : Rect G n m)
    (h2 : 2 ≤ n ∧ 2 ≤ m) (x y : Rat) :
    ∃ f00 f10 f01 f11 g00 g10 g01 g11,
      get2 F (cellIdx F x y).1 (cellIdx F x y).2 = some f00 ∧
      get2 F ((cellIdx F x y).1 + 1) (cellIdx F x y).2 = some f10 ∧
      get2 F (cellIdx F x y).1 ((cellIdx F x y).2 + 1) = some f01 ∧
      get2 F ((cellIdx F x y).1 + 1) ((cellIdx F x y).2 + 1) = some f11 ∧
      get2 G (cellIdx F x y).1 (cellIdx F x y).2 = some g00 ∧
      get2 G ((cellIdx F x y).1 + 1) (cellIdx F x y).2 = some g10 ∧
      get2 G (cellIdx F x y).1 ((cellIdx F x y).2 + 1) = some g01 ∧
      get2 G ((cellIdx F x y).1 + 1) ((cellIdx F x y).2 + 1) = some g11 := by
  have hi : 0 ≤ (cellIdx F x y).1 ∧ (cellIdx F x y).1 + 1 < n := by
    simp only [cellIdx, hF.rws]; omega
  have hj : 0 ≤ (cellIdx F x y).2 ∧ (cellIdx F x y).2 + 1 < m := by
    simp only [cellIdx, rect_head F n m hF (by omega)]; omega
  generalize (cellIdx F x y).1 = I at *
  generalize (cellIdx F x y).2 = J at *
  obtain ⟨f00, e00⟩ := get2_some F n m hF I J ⟨by omega, by omega⟩ ⟨by omega, by omega⟩
  obtain ⟨f10, e10⟩ := get2_some F n m hF (I + 1) J ⟨by omega, by omega⟩ ⟨by omega, by omega⟩
  obtain ⟨f01, e01⟩ := get2_some F n m hF I (J + 1) ⟨by omega, by omega⟩ ⟨by omega, by omega⟩
  obtain ⟨f11, e11⟩ := get2_some F n m hF (I + 1) (J + 1) ⟨by omega, by omega⟩ ⟨by omega, by omega⟩
  obtain ⟨g00, k00⟩ := get2_some G n m hG I J ⟨by omega, by omega⟩ ⟨by omega, by omega⟩
  obtain ⟨g10, k10⟩ := get2_some G n m hG (I + 1) J ⟨by omega, by omega⟩ ⟨by omega, by omega⟩
  obtain ⟨g01, k01⟩ := get2_some G n m hG I (J + 1) ⟨by omega, by omega⟩ ⟨by omega, by omega⟩
  obtain ⟨g11, k11⟩ := get2_some G n m hG (I + 1) (J + 1) ⟨by omega, by omega⟩ ⟨by omega, by omega⟩
  exact ⟨f00, f10, f01, f11, g00, g10, g01, g11, e00, e10, e01, e11, k00, k10, k01, k11⟩

/-- **bilin_inv_in_bounds**: with the cell index clamped to `[0, n−2]` one Newton iteration never
    reads outside the coordinate arrays, wherever the iterate is — for every target and grid. -/
theorem bilin_inv_in_bounds (F G : Field2) (n m : Int) (hF : Rect F n m) (hG : Rect G n m)
    (h2 : 2 ≤ n ∧ 2 ≤ m) (f g x y : Rat) : ∃ r, bilinInvStep F G f g x y = some r := by
  obtain ⟨f00, f10, f01, f11, g00, g10, g01, g11, e00, e10, e01, e11, k00, k10, k01, k11⟩ :=
    step_reads F G n m hF hG h2 x y
  exact ⟨_, bilinInvStep_eval F G f g x y f00 f10 f01 f11 g00 g10 g01 g11 e00 e10 e01 e11 k00 k10 k01 k11⟩

/-- the algebra of one Newton step on an affine pair of coordinate arrays -/
theorem stepVal_affine (f0 a b g0 c d f g x y : Rat) (I J : Int) (hdet : a * d - b * c ≠ 0) :
    let r := stepVal f g x y I J
      (f0 + a * I + b * J) (f0 + a * ((I + 1 : Int) : Rat) + b * J) (f0 + a * I + b * ((J + 1 : Int) : Rat))
      (f0 + a * ((I + 1 : Int) : Rat) + b * ((J + 1 : Int) : Rat))
      (g0 + c * I + d * J) (g0 + c * ((I + 1 : Int) : Rat) + d * J) (g0 + c * I + d * ((J + 1 : Int) : Rat))
      (g0 + c * ((I + 1 : Int) : Rat) + d * ((J + 1 : Int) : Rat))
    f0 + a * r.1 + b * r.2.1 = f ∧ g0 + c * r.1 + d * r.2.1 = g := by
  simp only [stepVal]
  push_cast
  have e : ((1 - (y - (J : ℚ))) * (f0 + a * ((I : ℚ) + 1) + b * J - (f0 + a * I + b * J)) +
      (y - J) * (f0 + a * ((I : ℚ) + 1) + b * ((J : ℚ) + 1) - (f0 + a * I + b * ((J : ℚ) + 1)))) *
      ((1 - (x - (I : ℚ))) * (g0 + c * I + d * ((J : ℚ) + 1) - (g0 + c * I + d * J)) +
      (x - I) * (g0 + c * ((I : ℚ) + 1) + d * ((J : ℚ) + 1) - (g0 + c * ((I : ℚ) + 1) + d * J))) -
      ((1 - (x - (I : ℚ))) * (f0 + a * I + b * ((J : ℚ) + 1) - (f0 + a * I + b * J)) +
      (x - I) * (f0 + a * ((I : ℚ) + 1) + b * ((J : ℚ) + 1) - (f0 + a * ((I : ℚ) + 1) + b * J))) *
      ((1 - (y - (J : ℚ))) * (g0 + c * ((I : ℚ) + 1) + d * J - (g0 + c * I + d * J)) +
      (y - J) * (g0 + c * ((I : ℚ) + 1) + d * ((J : ℚ) + 1) - (g0 + c * I + d * ((J : ℚ) + 1))))
      = a * d - b * c := by ring
  rw [e]
  generalize hD : a * d - b * c = D at hdet ⊢
  constructor
  · field_simp
    subst hD
    ring
  · field_simp
    subst hD
    ring

/-- **bilin_inv_affine_exact**: on an affine lon/lat grid with non-degenerate Jacobian one Newton
    step from *any* iterate lands on the exact inverse: the position whose interpolated
    coordinates are the target — so `ll2xy ∘ xy2ll = id` there. -/
theorem bilin_inv_affine_exact (F G : Field2) (n m : Int) (hF : Rect F n m) (hG : Rect G n m)
    (h2 : 2 ≤ n ∧ 2 ≤ m) (f0 a b g0 c d : Rat) (hFa : Affine F f0 a b) (hGa : Affine G g0 c d)
    (hdet : a * d - b * c ≠ 0) (f g x y : Rat) :
    ∃ x' y' H, bilinInvStep F G f g x y = some (x', y', H) ∧
      f0 + a * x' + b * y' = f ∧ g0 + c * x' + d * y' = g := by
  obtain ⟨f00, f10, f01, f11, g00, g10, g01, g11, e00, e10, e01, e11, k00, k10, k01, k11⟩ :=
    step_reads F G n m hF hG h2 x y
  have hs := bilinInvStep_eval F G f g x y f00 f10 f01 f11 g00 g10 g01 g11 e00 e10 e01 e11 k00 k10 k01 k11
  rw [hFa _ _ _ e00, hFa _ _ _ e10, hFa _ _ _ e01, hFa _ _ _ e11,
    hGa _ _ _ k00, hGa _ _ _ k10, hGa _ _ _ k01, hGa _ _ _ k11] at hs
  have := stepVal_affine f0 a b g0 c d f g x y (cellIdx F x y).1 (cellIdx F x y).2 hdet
  exact ⟨_, _, _, hs, this⟩

/-- invariant of the iteration `bilinInv.go` -/
theorem go_spec (F G : Field2) (f g tol : Rat) (n : Nat) : ∀ (x0 y0 x y : Rat),
    bilinInv.go F G f g tol n x0 y0 = some (x, y) →
    (∃ x' y' H, bilinInvStep F G f g x y = some (x', y', H) ∧ H < tol) ∨
    (∃ x1 y1 H, bilinInvStep F G f g x1 y1 = some (x, y, H) ∧ ¬ H < tol) ∨ (n = 0 ∧ x = x0 ∧ y = y0) := by
  induction n with
  | zero =>
    intro x0 y0 x y h
    simp only [bilinInv.go, Option.some.injEq, Prod.mk.injEq] at h
    exact Or.inr (Or.inr ⟨rfl, h.1.symm, h.2.symm⟩)
  | succ n ih =>
    intro x0 y0 x y h
    rw [bilinInv.go] at h
    cases hs : bilinInvStep F G f g x0 y0 with
    | none => rw [hs] at h; exact absurd h (by simp)
    | some r =>
      obtain ⟨x', y', H⟩ := r
      rw [hs] at h
      simp only at h
      by_cases hH : H < tol
      · rw [if_pos hH] at h
        simp only [Option.some.injEq, Prod.mk.injEq] at h
        obtain ⟨rfl, rfl⟩ := h
        exact Or.inl ⟨x', y', H, hs, hH⟩
      · rw [if_neg hH] at h
        rcases ih x' y' x y h with h1 | h1 | ⟨-, rfl, rfl⟩
        · exact Or.inl h1
        · exact Or.inr (Or.inl h1)
        · exact Or.inr (Or.inl ⟨x0, y0, H, hs, hH⟩)

/-- **bilin_inv_converged_residual**: whenever the iteration stops through the tolerance test, the
    squared lon/lat residual at the returned position is below the tolerance; otherwise all
    `maxiter` Newton steps were taken (convergence on curved grids is measured, not proved). -/
theorem bilin_inv_converged_residual (F G : Field2) (f g tol : Rat) (maxiter : Nat) (x y : Rat)
    (h : bilinInv F G f g maxiter tol = some (x, y)) :
    (∃ x' y' H, bilinInvStep F G f g x y = some (x', y', H) ∧ H < tol) ∨
    (∃ x0 y0 H, bilinInvStep F G f g x0 y0 = some (x, y, H) ∧ ¬ H < tol) ∨ maxiter = 0 := by
  unfold bilinInv at h
  rcases go_spec F G f g tol maxiter _ _ x y h with h1 | h1 | ⟨h0, -, -⟩
  · exact Or.inl h1
  · exact Or.inr (Or.inl h1)
  · exact Or.inr (Or.inr h0)

/-! non-vacuity -/
example : sample2D [[0, 1], [2, 3]] (1/2) (1/2) none 0 none = .value (3/2) := by decide +kernel
example : sample2D [[0, 1], [2, 3]] 5 (1/2) none 0 (some 0) = .value 0 := by decide +kernel

end Ladim.C16
