import Ladim.Model.Forcing
import Mathlib.Tactic.Linarith
import Mathlib.Tactic.Ring
import Mathlib.Tactic.FieldSimp
import Mathlib.Tactic.Push
import Mathlib.Algebra.Order.Field.Rat
import Mathlib.Data.List.Basic
/-
C03 — forcing in time.  Property theorems about the time machine `Ladim.Model.Forcing`
(`Forcing.__init__`, `Forcing.update`, `Forcing.velocity`, `_select_file` of `ladim/ROMS.py`).

Quantification: every frame table sorted strictly by step (any spacing ≥ 1, regular or not),
any assignment of the frames to files, any start offset (the first frame at or before step 0),
any run length the frames cover, any frame contents.  The direction of time only enters
through the step numbers (`time2step` mirrors them) and a sign at sampling time, so the same
theorems cover reversed runs (see `Ladim.Props.C10`).
-/

namespace Ladim.C03
open Ladim FM

/-- frame table strictly sorted by step -/
def Sorted (frames : List Frame) : Prop := frames.Pairwise (fun a b => a.step < b.step)

/-- the frames cover the run: one at or before step 0, one at or after step `last`, `last ≥ 1` -/
def Covers (frames : List Frame) (last : Int) : Prop :=
  1 ≤ last ∧ (∃ f ∈ frames, f.step ≤ 0) ∧ (∃ f ∈ frames, last ≤ f.step)

/-! ### helper lemmas: look-ups in a sorted table, one read, one update -/

theorem indexOf_append_cons (pre : List Frame) (a : Frame) (rest : List Frame) (k : Int)
    (hpre : ∀ x ∈ pre, x.step ≠ k) (ha : a.step = k) :
    indexOf (pre ++ a :: rest) k = some pre.length := by
  induction pre with
  | nil => simp [indexOf, List.findIdx?_cons, ha]
  | cons x xs ih =>
    have h1 := hpre x (by simp)
    have h2 := ih (fun y hy => hpre y (by simp [hy]))
    simp only [indexOf] at h2 ⊢
    simp [List.findIdx?_cons, h1, h2]

theorem indexOf_none (l : List Frame) (k : Int) (h : ∀ x ∈ l, x.step ≠ k) : indexOf l k = none := by
  simp [indexOf, List.findIdx?_eq_none_iff]
  exact h

theorem frameOf_append_cons (pre : List Frame) (a : Frame) (rest : List Frame) (k : Int)
    (hpre : ∀ x ∈ pre, x.step ≠ k) (ha : a.step = k) :
    frameOf (pre ++ a :: rest) k = some a := by
  induction pre with
  | nil => simp [frameOf, ha]
  | cons x xs ih =>
    have h1 := hpre x (by simp)
    have h2 := ih (fun y hy => hpre y (by simp [hy]))
    simp only [frameOf] at h2 ⊢
    simp [h1, h2]

theorem read_of_frameOf (m : FM) (val : Nat → Nat → Rat) (step : Int) (fr : Frame)
    (h : frameOf m.frames step = some fr) :
    m.read val step = some (val fr.file fr.idx,
      { m with openFile := some fr.file, reads := m.reads ++ [(step, fr.file, fr.idx)] }) := by
  unfold FM.read
  rw [h]
  cases hm : m.openFile with
  | none => simp
  | some f => 
    by_cases hf : f = fr.file
    · subst hf; simp
    · simp [hf]

theorem read_mk (frames : List Frame) (u unew dU scal : Rat) (openFile : Option Nat)
    (reads : List (Int × Nat × Nat)) (val : Nat → Nat → Rat) (step : Int) (fr : Frame)
    (h : frameOf frames step = some fr) :
    FM.read ⟨frames, u, unew, dU, scal, openFile, reads⟩ val step =
      some (val fr.file fr.idx,
        ⟨frames, u, unew, dU, scal, some fr.file, reads ++ [(step, fr.file, fr.idx)]⟩) :=
  read_of_frameOf _ _ _ _ h

/-- every logged read names a frame of the table, with that frame's file and index -/
def ReadsOK (frames : List Frame) (reads : List (Int × Nat × Nat)) : Prop :=
  ∀ r ∈ reads, ∃ fr ∈ frames, fr.step = r.1 ∧ fr.file = r.2.1 ∧ fr.idx = r.2.2

theorem readsOK_nil (frames : List Frame) : ReadsOK frames [] := by
  intro r hr; cases hr

theorem readsOK_snoc {frames : List Frame} {reads : List (Int × Nat × Nat)} (h : ReadsOK frames reads)
    {fr : Frame} (hfr : fr ∈ frames) : ReadsOK frames (reads ++ [(fr.step, fr.file, fr.idx)]) := by
  intro r hr
  rcases List.mem_append.1 hr with hr | hr
  · exact h r hr
  · simp at hr; subst hr; exact ⟨fr, hfr, rfl, rfl, rfl⟩

theorem update_nonframe (m : FM) (valU valS : Nat → Nat → Rat) (hasS : Bool) (k : Int)
    (h : ∀ x ∈ m.frames, x.step ≠ k) :
    m.update valU valS hasS k = some { m with u := m.u + m.dU } := by
  unfold FM.update
  rw [indexOf_none _ _ h]

theorem update_frame (m : FM) (valU valS : Nat → Nat → Rat) (hasS : Bool)
    (pre : List Frame) (b : Frame) (post : List Frame)
    (hfr : m.frames = pre ++ b :: post)
    (hpre : ∀ x ∈ pre, x.step ≠ b.step)
    (hpost : ∀ c ∈ post, ∀ x ∈ pre ++ [b], x.step ≠ c.step)
    (hreads : ReadsOK m.frames m.reads) :
    ∃ m', m.update valU valS hasS b.step = some m' ∧ m'.frames = m.frames ∧ m'.u = m.unew ∧
      (hasS = true → m'.scal = valS b.file b.idx) ∧ ReadsOK m.frames m'.reads ∧
      (post = [] ∨ ∃ c post', post = c :: post' ∧ m'.unew = valU c.file c.idx ∧
        m'.dU = (valU c.file c.idx - m.unew) / ((c.step - b.step : Int) : Rat)) := by
  obtain ⟨frames, u, unew, dU, scal, openFile, reads⟩ := m
  simp only at hfr hreads ⊢
  subst hfr
  have hb : b ∈ pre ++ b :: post := by simp
  have hidx := indexOf_append_cons pre b post b.step hpre rfl
  have hfo := frameOf_append_cons pre b post b.step hpre rfl
  unfold FM.update
  simp only [hidx]
  cases hasS with
  | false =>
    cases post with
    | nil => simp [hreads]
    | cons c post' =>
      have hfc : frameOf (pre ++ b :: c :: post') c.step = some c := by
        have := frameOf_append_cons (pre ++ [b]) c post' c.step (hpost c (by simp)) rfl
        simpa using this
      simp [read_mk _ _ _ _ _ _ _ _ _ _ hfc]
      exact readsOK_snoc hreads (by simp)
  | true => 
    cases post with
    | nil => 
      simp [read_mk _ _ _ _ _ _ _ _ _ _ hfo]
      exact readsOK_snoc hreads (by simp)
    | cons c post' =>
      have hfc : frameOf (pre ++ b :: c :: post') c.step = some c := by
        have := frameOf_append_cons (pre ++ [b]) c post' c.step (hpost c (by simp)) rfl
        simpa using this
      simp [read_mk _ _ _ _ _ _ _ _ _ _ hfc, read_mk _ _ _ _ _ _ _ _ _ _ hfo]
      have := readsOK_snoc (readsOK_snoc hreads hb) (fr := c) (by simp)
      simpa using this

theorem sorted_split {pre : List Frame} {a b : Frame} {post : List Frame}
    (hs : Sorted (pre ++ a :: b :: post)) :
    (∀ x ∈ pre, x.step < a.step) ∧ a.step < b.step ∧ (∀ x ∈ post, b.step < x.step) := by
  unfold Sorted at hs
  rw [List.pairwise_append] at hs
  obtain ⟨_, h2, h3⟩ := hs
  rw [List.pairwise_cons, List.pairwise_cons] at h2
  exact ⟨fun x hx => h3 x hx a (by simp), h2.1 b (by simp), fun x hx => h2.2.1 x hx⟩

theorem sorted_last {pre : List Frame} {a : Frame} (hs : Sorted (pre ++ [a])) :
    ∀ x ∈ pre, x.step < a.step := by
  unfold Sorted at hs
  rw [List.pairwise_append] at hs
  exact fun x hx => hs.2.2 x hx a (by simp)

def Mid (frames : List Frame) (valU valS : Nat → Nat → Rat) (hasS : Bool) (m : FM) (n : Int) : Prop :=
  ∃ pre a b post, frames = pre ++ a :: b :: post ∧ a.step ≤ n ∧ n < b.step ∧
    m.unew = valU b.file b.idx ∧
    m.dU = (valU b.file b.idx - valU a.file a.idx) / ((b.step - a.step : Int) : Rat) ∧
    m.u = valU a.file a.idx + ((n - a.step : Int) : Rat) * m.dU ∧
    (hasS = true → m.scal = valS a.file a.idx)

def AtLast (frames : List Frame) (valU valS : Nat → Nat → Rat) (hasS : Bool) (m : FM) (n : Int) : Prop :=
  ∃ pre a, frames = pre ++ [a] ∧ n = a.step ∧ m.u = valU a.file a.idx ∧
    (hasS = true → m.scal = valS a.file a.idx)

def Degen (frames : List Frame) (valU : Nat → Nat → Rat) (m : FM) : Prop :=
  ∃ pre a b post, frames = pre ++ a :: b :: post ∧ a.step = 0 ∧ m.unew = valU a.file a.idx

def Inv (frames : List Frame) (valU valS : Nat → Nat → Rat) (hasS : Bool) (m : FM) (n : Int) : Prop :=
  m.frames = frames ∧ ReadsOK frames m.reads ∧
    (Mid frames valU valS hasS m n ∨ AtLast frames valU valS hasS m n)

theorem update_mid (frames : List Frame) (valU valS : Nat → Nat → Rat) (hasS : Bool) (m : FM) (n : Int)
    (hs : Sorted frames) (hfr : m.frames = frames) (hreads : ReadsOK frames m.reads)
    (hmid : Mid frames valU valS hasS m n) :
    ∃ m', m.update valU valS hasS (n + 1) = some m' ∧ Inv frames valU valS hasS m' (n + 1) := by
  obtain ⟨pre, a, b, post, hdec, hlo, hhi, hunew, hdU, hu, hscal⟩ := hmid
  subst hdec
  obtain ⟨hpre, hab, hpost⟩ := sorted_split hs
  have hpos : (0:ℤ) < b.step - a.step := by omega
  have hL : ((b.step - a.step : Int) : ℚ) ≠ 0 := by exact_mod_cast (ne_of_gt hpos)
  by_cases hstep : b.step = n + 1
  · -- a frame step
    have hfr' : m.frames = (pre ++ [a]) ++ b :: post := by simp [hfr]
    have h1 : ∀ x ∈ pre ++ [a], x.step ≠ b.step := by
      intro x hx
      rcases List.mem_append.1 hx with hx | hx
      · have := hpre x hx; omega
      · simp at hx; subst hx; omega
    have h2 : ∀ c ∈ post, ∀ x ∈ (pre ++ [a]) ++ [b], x.step ≠ c.step := by
      intro c hc x hx
      have hc' := hpost c hc
      rcases List.mem_append.1 hx with hx | hx
      · have := h1 x hx
        rcases List.mem_append.1 hx with hx | hx
        · have := hpre x hx; omega
        · simp at hx; subst hx; omega
      · simp at hx; subst hx; omega
    obtain ⟨m', hup, hfm, hu', hs', hr', hnext⟩ :=
      update_frame m valU valS hasS (pre ++ [a]) b post hfr' h1 h2 (by rw [hfr]; exact hreads)
    rw [hstep] at hup
    refine ⟨m', hup, by rw [hfm, hfr], by rw [← hfr]; exact hr', ?_⟩
    have hval : m'.u = valU b.file b.idx := by rw [hu', hunew]
    rcases hnext with hnil | ⟨c, post', hc, hun, hd⟩
    · subst hnil
      exact Or.inr ⟨pre ++ [a], b, by simp, hstep.symm, hval, hs'⟩
    · subst hc
      have hbc := hpost c (by simp)
      refine Or.inl ⟨pre ++ [a], b, c, post', by simp, by omega, by omega, hun, ?_, ?_, hs'⟩
      · rw [hd, hunew]
      · rw [hval, ← hstep]; simp
  · -- between frames
    have hlt : n + 1 < b.step := by omega
    have hnf : ∀ x ∈ m.frames, x.step ≠ n + 1 := by
      rw [hfr]
      intro x hx
      simp only [List.mem_append, List.mem_cons] at hx
      rcases hx with hx | hx | hx | hx
      · have := hpre x hx; omega
      · subst hx; omega
      · subst hx; omega
      · have := hpost x hx; omega
    refine ⟨_, update_nonframe m valU valS hasS (n + 1) hnf, hfr, hreads, Or.inl ?_⟩
    refine ⟨pre, a, b, post, rfl, by omega, hlt, hunew, hdU, ?_, hscal⟩
    simp only
    rw [hu]; push_cast; ring

theorem update_degen (frames : List Frame) (valU valS : Nat → Nat → Rat) (hasS : Bool) (m : FM)
    (hs : Sorted frames) (hfr : m.frames = frames) (hreads : ReadsOK frames m.reads)
    (hd : Degen frames valU m) :
    ∃ m', m.update valU valS hasS 0 = some m' ∧ Inv frames valU valS hasS m' 0 := by
  obtain ⟨pre, a, b, post, hdec, ha0, hunew⟩ := hd
  subst hdec
  obtain ⟨hpre, hab, hpost⟩ := sorted_split hs
  have h1 : ∀ x ∈ pre, x.step ≠ a.step := by
    intro x hx; have := hpre x hx; omega
  have h2 : ∀ c ∈ b :: post, ∀ x ∈ pre ++ [a], x.step ≠ c.step := by
    intro c hc x hx
    have hc' : b.step ≤ c.step := by
      rcases List.mem_cons.1 hc with hc | hc
      · subst hc; exact le_refl _
      · exact le_of_lt (hpost c hc)
    rcases List.mem_append.1 hx with hx | hx
    · have := hpre x hx; omega
    · simp at hx; subst hx; omega
  obtain ⟨m', hup, hfm, hu', hs', hr', hnext⟩ :=
    update_frame m valU valS hasS pre a (b :: post) hfr h1 h2 (by rw [hfr]; exact hreads)
  rw [ha0] at hup
  refine ⟨m', hup, by rw [hfm, hfr], by rw [← hfr]; exact hr', Or.inl ?_⟩
  rcases hnext with hnil | ⟨c, post', hc, hun, hd⟩
  · cases hnil
  · cases hc
    refine ⟨pre, a, _, _, rfl, by omega, by omega, hun, ?_, ?_, hs'⟩
    · rw [hd, hunew]
    · rw [hu', hunew, ha0]; simp

theorem filter_split_left {α : Type} (p : α → Bool) (l1 l2 : List α)
    (h1 : ∀ x ∈ l1, p x = true) (h2 : ∀ x ∈ l2, p x = false) : (l1 ++ l2).filter p = l1 := by
  rw [List.filter_append, List.filter_eq_self.2 h1,
    List.filter_eq_nil_iff.2 (fun x hx => by simp [h2 x hx]), List.append_nil]

theorem filter_split_right {α : Type} (p : α → Bool) (l1 l2 : List α)
    (h1 : ∀ x ∈ l1, p x = false) (h2 : ∀ x ∈ l2, p x = true) : (l1 ++ l2).filter p = l2 := by
  rw [List.filter_append, List.filter_eq_self.2 h2,
    List.filter_eq_nil_iff.2 (fun x hx => by simp [h1 x hx]), List.nil_append]

theorem exists_split (l : List Frame) (k : Int) (hs : Sorted l)
    (h1 : ∃ f ∈ l, f.step ≤ k) (h2 : ∃ g ∈ l, k < g.step) :
    ∃ pre a b post, l = pre ++ a :: b :: post ∧ a.step ≤ k ∧ k < b.step := by
  induction l with
  | nil => obtain ⟨f, hf, _⟩ := h1; cases hf
  | cons x xs ih =>
    unfold Sorted at hs
    rw [List.pairwise_cons] at hs
    obtain ⟨hx, hxs⟩ := hs
    obtain ⟨g, hg, hgk⟩ := h2
    by_cases h : ∃ f ∈ xs, f.step ≤ k
    · obtain ⟨f, hf, hfk⟩ := h
      have hg' : g ∈ xs := by
        rcases List.mem_cons.1 hg with hg | hg
        · subst hg; have := hx f hf; omega
        · exact hg
      obtain ⟨pre, a, b, post, hdec, ha, hb⟩ := ih hxs ⟨f, hf, hfk⟩ ⟨g, hg', hgk⟩
      exact ⟨x :: pre, a, b, post, by simp [hdec], ha, hb⟩
    · obtain ⟨f, hf, hfk⟩ := h1
      have hfx : f = x := by
        rcases List.mem_cons.1 hf with hf | hf
        · exact hf
        · exact absurd ⟨f, hf, hfk⟩ h
      subst hfx
      have hg' : g ∈ xs := by
        rcases List.mem_cons.1 hg with hg | hg
        · subst hg; omega
        · exact hg
      cases xs with
      | nil => cases hg'
      | cons y ys =>
        refine ⟨[], f, y, ys, rfl, hfk, ?_⟩
        by_contra hy
        exact h ⟨y, by simp, by omega⟩

theorem foldl_max_le (L : List Int) (h x : Int) (hh : h ≤ x) (hL : ∀ y ∈ L, y ≤ x) :
    L.foldl max h ≤ x := by
  induction L generalizing h with
  | nil => simpa using hh
  | cons y ys ih =>
    rw [List.foldl_cons]
    exact ih _ (max_le hh (hL y (by simp))) (fun z hz => hL z (by simp [hz]))

theorem prestep_neg {pre : List Frame} {a b : Frame} {post : List Frame}
    (hs : Sorted (pre ++ a :: b :: post)) (ha : a.step < 0) (hb : 0 ≤ b.step) :
    (((pre ++ a :: b :: post).filter (·.step < 0)).map (·.step)).foldl max
      ((((pre ++ a :: b :: post).filter (·.step < 0)).map (·.step)).headD 0) = a.step := by
  obtain ⟨hpre, hab, hpost⟩ := sorted_split hs
  have hf : (pre ++ a :: b :: post).filter (·.step < 0) = pre ++ [a] := by
    have : pre ++ a :: b :: post = (pre ++ [a]) ++ (b :: post) := by simp
    rw [this]
    apply filter_split_left
    · intro x hx
      rcases List.mem_append.1 hx with hx | hx
      · have := hpre x hx; simp; omega
      · simp at hx; subst hx; simpa using ha
    · intro x hx
      rcases List.mem_cons.1 hx with hx | hx
      · subst hx; simpa using hb
      · have := hpost x hx; simp; omega
  rw [hf, List.map_append, List.map_cons, List.map_nil, List.foldl_append, List.foldl_cons,
    List.foldl_nil]
  apply max_eq_right
  apply foldl_max_le
  · cases pre with
    | nil => simp
    | cons y ys => simpa using le_of_lt (hpre y (by simp))
  · intro y hy
    obtain ⟨z, hz, rfl⟩ := List.mem_map.1 hy
    exact le_of_lt (hpre z hz)

theorem prestep_nonneg {frames : List Frame} (h : ∀ f ∈ frames, 0 ≤ f.step) :
    ((frames.filter (·.step < 0)).map (·.step)).foldl max
      (((frames.filter (·.step < 0)).map (·.step)).headD 0) = 0 := by
  have hf : frames.filter (·.step < 0) = [] := by
    apply List.filter_eq_nil_iff.2
    intro x hx; have := h x hx; simp; omega
  rw [hf]; rfl

theorem init_of_split (valU valS : Nat → Nat → Rat) (hasS : Bool)
    (pre : List Frame) (a b : Frame) (post : List Frame)
    (hs : Sorted (pre ++ a :: b :: post))
    (hp : (((pre ++ a :: b :: post).filter (·.step < 0)).map (·.step)).foldl max
      ((((pre ++ a :: b :: post).filter (·.step < 0)).map (·.step)).headD 0) = a.step) :
    ∃ m0, FM.init (pre ++ a :: b :: post) valU valS hasS = some m0 ∧
      m0.frames = pre ++ a :: b :: post ∧ ReadsOK (pre ++ a :: b :: post) m0.reads ∧
      m0.dU = (valU b.file b.idx - valU a.file a.idx) / ((b.step - a.step : Int) : Rat) ∧
      m0.unew = (if a.step = 0 then valU a.file a.idx else valU b.file b.idx) ∧
      m0.u = valU a.file a.idx - ((a.step + 1 : Int) : Rat) * m0.dU ∧
      (hasS = true → m0.scal = valS a.file a.idx) := by
  obtain ⟨hpre, hab, hpost⟩ := sorted_split hs
  have h1 : ∀ x ∈ pre, x.step ≠ a.step := by
    intro x hx; have := hpre x hx; omega
  have h2 : ∀ x ∈ pre ++ [a], x.step ≠ b.step := by
    intro x hx
    rcases List.mem_append.1 hx with hx | hx
    · have := hpre x hx; omega
    · simp at hx; subst hx; omega
  have hidx := indexOf_append_cons pre a (b :: post) a.step h1 rfl
  have hfa := frameOf_append_cons pre a (b :: post) a.step h1 rfl
  have hfb : frameOf (pre ++ a :: b :: post) b.step = some b := by
    have := frameOf_append_cons (pre ++ [a]) b post b.step h2 rfl
    simpa using this
  have hget : (pre ++ a :: b :: post)[pre.length + 1]? = some b := by simp
  have hma : a ∈ pre ++ a :: b :: post := by simp
  have hmb : b ∈ pre ++ a :: b :: post := by simp
  unfold FM.init
  simp only [hp, hidx, hget, read_mk _ _ _ _ _ _ _ _ _ _ hfa, read_mk _ _ _ _ _ _ _ _ _ _ hfb]
  cases hasS with
  | false =>
    simp
    have := readsOK_snoc (readsOK_snoc (readsOK_nil _) hma) hmb
    simpa using this
  | true =>
    simp
    have := readsOK_snoc (readsOK_snoc (readsOK_snoc (readsOK_nil _) hma) hmb) hma
    simpa using this

theorem init_spec (frames : List Frame) (valU valS : Nat → Nat → Rat) (hasS : Bool) (last : Int)
    (hs : Sorted frames) (hc : Covers frames last) :
    ∃ m0, FM.init frames valU valS hasS = some m0 ∧ m0.frames = frames ∧ ReadsOK frames m0.reads ∧
      (Mid frames valU valS hasS m0 (-1) ∨ Degen frames valU m0) := by
  obtain ⟨hl, ⟨f, hf, hf0⟩, ⟨g, hg, hgl⟩⟩ := hc
  by_cases hneg : ∃ x ∈ frames, x.step < 0
  · obtain ⟨x, hx, hx0⟩ := hneg
    obtain ⟨pre, a, b, post, hdec, ha, hb⟩ :=
      exists_split frames (-1) hs ⟨x, hx, by omega⟩ ⟨g, hg, by omega⟩
    subst hdec
    obtain ⟨m0, hinit, hfr, hr, hdU, hunew, hu, hsc⟩ :=
      init_of_split valU valS hasS pre a b post hs (prestep_neg hs (by omega) (by omega))
    refine ⟨m0, hinit, hfr, hr, Or.inl ⟨pre, a, b, post, rfl, ha, hb, ?_, hdU, ?_, hsc⟩⟩
    · rw [hunew, if_neg (by omega)]
    · rw [hu]; push_cast; ring
  · have hnn : ∀ x ∈ frames, 0 ≤ x.step := by
      intro x hx; by_contra h; exact hneg ⟨x, hx, by omega⟩
    obtain ⟨pre, a, b, post, hdec, ha, hb⟩ :=
      exists_split frames 0 hs ⟨f, hf, hf0⟩ ⟨g, hg, by omega⟩
    have ha0 : a.step = 0 := by
      have := hnn a (by simp [hdec]); omega
    subst hdec
    obtain ⟨m0, hinit, hfr, hr, hdU, hunew, hu, hsc⟩ :=
      init_of_split valU valS hasS pre a b post hs (by rw [prestep_nonneg hnn, ha0])
    refine ⟨m0, hinit, hfr, hr, Or.inr ⟨pre, a, b, post, rfl, ha0, ?_⟩⟩
    rw [hunew, if_pos ha0]

/-- at the last frame of the table no later frame exists -/
theorem atLast_max {frames : List Frame} {valU valS : Nat → Nat → Rat} {hasS : Bool} {m : FM} {n : Int}
    (hs : Sorted frames) (h : AtLast frames valU valS hasS m n) : ∀ g ∈ frames, g.step ≤ n := by
  obtain ⟨pre, a, hdec, hn, _, _⟩ := h
  subst hdec
  intro g hg
  rcases List.mem_append.1 hg with hg | hg
  · have := sorted_last hs g hg; omega
  · simp at hg; subst hg; omega

/-- the main invariant holds after the update of every step the frames cover -/
theorem run_spec (frames : List Frame) (valU valS : Nat → Nat → Rat) (hasS : Bool) (last : Int)
    (hs : Sorted frames) (hc : Covers frames last) (n : Nat) (hn : (n : Int) ≤ last) :
    ∃ m0 m, FM.init frames valU valS hasS = some m0 ∧
      FM.run m0 valU valS hasS (n + 1) = some m ∧ Inv frames valU valS hasS m n := by
  obtain ⟨m0, hinit, hfr0, hr0, h0⟩ := init_spec frames valU valS hasS last hs hc
  obtain ⟨hl, _, ⟨g, hg, hgl⟩⟩ := hc
  suffices h : ∃ m, FM.run m0 valU valS hasS (n + 1) = some m ∧ Inv frames valU valS hasS m n by
    obtain ⟨m, h1, h2⟩ := h
    exact ⟨m0, m, hinit, h1, h2⟩
  induction n with
  | zero =>
    have hrun : FM.run m0 valU valS hasS (0 + 1) = m0.update valU valS hasS 0 := by
      simp [FM.run]
    rw [hrun]
    rcases h0 with h0 | h0
    · have := update_mid frames valU valS hasS m0 (-1) hs hfr0 hr0 h0
      simpa using this
    · have := update_degen frames valU valS hasS m0 hs hfr0 hr0 h0
      simpa using this
  | succ k ih =>
    obtain ⟨m, hrun, hfr, hr, hinv⟩ := ih (by omega)
    have hrun' : FM.run m0 valU valS hasS (k + 1 + 1) = m.update valU valS hasS ((k : Int) + 1) := by
      rw [FM.run, hrun]; simp
    rw [hrun']
    rcases hinv with hmid | hlast
    · have := update_mid frames valU valS hasS m (k : Int) hs hfr hr hmid
      simpa using this
    · have := atLast_max hs hlast g hg
      push_cast at hn
      omega

theorem interp_mid (val : Nat → Nat → Rat) (pre : List Frame) (a b : Frame) (post : List Frame)
    (hs : Sorted (pre ++ a :: b :: post)) (t : Rat) (h1 : (a.step : Rat) ≤ t) (h2 : t < (b.step : Rat)) :
    interpFrames (pre ++ a :: b :: post) val t =
      some (val a.file a.idx + (t - a.step) *
        ((val b.file b.idx - val a.file a.idx) / ((b.step - a.step : Int) : Rat))) := by
  obtain ⟨hpre, hab, hpost⟩ := sorted_split hs
  have hdec : pre ++ a :: b :: post = (pre ++ [a]) ++ (b :: post) := by simp
  have hbefore : (pre ++ a :: b :: post).filter (fun f => (f.step : Rat) ≤ t) = pre ++ [a] := by
    rw [hdec]
    apply filter_split_left
    · intro x hx
      rcases List.mem_append.1 hx with hx | hx
      · have : (x.step : Rat) < a.step := by exact_mod_cast hpre x hx
        simp; linarith
      · simp at hx; subst hx; simpa using h1
    · intro x hx
      rcases List.mem_cons.1 hx with hx | hx
      · subst hx; simpa using h2
      · have : (b.step : Rat) < x.step := by exact_mod_cast hpost x hx
        simp; linarith
  have hafter : (pre ++ a :: b :: post).filter (fun f => t < (f.step : Rat)) = b :: post := by
    rw [hdec]
    apply filter_split_right
    · intro x hx
      rcases List.mem_append.1 hx with hx | hx
      · have : (x.step : Rat) < a.step := by exact_mod_cast hpre x hx
        simp; linarith
      · simp at hx; subst hx; simpa using h1
    · intro x hx
      rcases List.mem_cons.1 hx with hx | hx
      · subst hx; simpa using h2
      · have : (b.step : Rat) < x.step := by exact_mod_cast hpost x hx
        simp; linarith
  unfold interpFrames
  simp only [hbefore, hafter]
  simp

theorem interp_last (val : Nat → Nat → Rat) (pre : List Frame) (a : Frame)
    (hs : Sorted (pre ++ [a])) :
    interpFrames (pre ++ [a]) val (a.step : Rat) = some (val a.file a.idx) := by
  have hpre := sorted_last hs
  have hbefore : (pre ++ [a]).filter (fun f => (f.step : Rat) ≤ (a.step : Rat)) = pre ++ [a] := by
    apply List.filter_eq_self.2
    intro x hx
    rcases List.mem_append.1 hx with hx | hx
    · have := hpre x hx
      simp; omega
    · simp at hx; subst hx; simp
  have hafter : (pre ++ [a]).filter (fun f => (a.step : Rat) < (f.step : Rat)) = [] := by
    apply List.filter_eq_nil_iff.2
    intro x hx
    rcases List.mem_append.1 hx with hx | hx
    · have := hpre x hx
      simp; omega
    · simp at hx; subst hx; simp
  unfold interpFrames
  simp only [hbefore, hafter]
  simp

theorem latest_mid (val : Nat → Nat → Rat) (pre : List Frame) (a b : Frame) (post : List Frame)
    (hs : Sorted (pre ++ a :: b :: post)) (n : Int) (h1 : a.step ≤ n) (h2 : n < b.step) :
    latestFrame (pre ++ a :: b :: post) val n = some (val a.file a.idx) := by
  obtain ⟨hpre, hab, hpost⟩ := sorted_split hs
  have hdec : pre ++ a :: b :: post = (pre ++ [a]) ++ (b :: post) := by simp
  have hbefore : (pre ++ a :: b :: post).filter (fun f => f.step ≤ n) = pre ++ [a] := by
    rw [hdec]
    apply filter_split_left
    · intro x hx
      rcases List.mem_append.1 hx with hx | hx
      · have := hpre x hx
        simp; omega
      · simp at hx; subst hx; simpa using h1
    · intro x hx
      rcases List.mem_cons.1 hx with hx | hx
      · subst hx; simpa using h2
      · have := hpost x hx
        simp; omega
  unfold latestFrame
  rw [hbefore]
  simp

theorem latest_last (val : Nat → Nat → Rat) (pre : List Frame) (a : Frame)
    (hs : Sorted (pre ++ [a])) :
    latestFrame (pre ++ [a]) val a.step = some (val a.file a.idx) := by
  have hpre := sorted_last hs
  have hbefore : (pre ++ [a]).filter (fun f => f.step ≤ a.step) = pre ++ [a] := by
    apply List.filter_eq_self.2
    intro x hx
    rcases List.mem_append.1 hx with hx | hx
    · have := hpre x hx
      simp; omega
    · simp at hx; subst hx; simp
  unfold latestFrame
  rw [hbefore]
  simp

/-- **init_ok**: on a covered, sorted table the start-up succeeds -/
theorem init_ok (frames : List Frame) (valU valS : Nat → Nat → Rat) (hasS : Bool) (last : Int)
    (hs : Sorted frames) (hc : Covers frames last) :
    ∃ m0, FM.init frames valU valS hasS = some m0 := by
  obtain ⟨m0, h, _⟩ := init_spec frames valU valS hasS last hs hc
  exact ⟨m0, h⟩

/-- **u_eq_interp**: after the update of step `n` (for every `n` the frames cover) the running
    field equals the linear interpolation between the two frames that bracket step `n`
    (the frame itself at a frame step). -/
theorem u_eq_interp (frames : List Frame) (valU valS : Nat → Nat → Rat) (hasS : Bool) (last : Int)
    (hs : Sorted frames) (hc : Covers frames last) (n : Nat) (hn : (n : Int) ≤ last) :
    ∃ m0 m, FM.init frames valU valS hasS = some m0 ∧
      FM.run m0 valU valS hasS (n + 1) = some m ∧
      interpFrames frames valU (n : Rat) = some m.u := by
  obtain ⟨m0, m, hinit, hrun, _, _, hinv⟩ := run_spec frames valU valS hasS last hs hc n hn
  refine ⟨m0, m, hinit, hrun, ?_⟩
  rcases hinv with ⟨pre, a, b, post, hdec, hlo, hhi, hunew, hdU, hu, _⟩ | ⟨pre, a, hdec, hna, hu, _⟩
  · subst hdec
    rw [interp_mid valU pre a b post hs (n : Rat) (by exact_mod_cast hlo) (by exact_mod_cast hhi),
      hu, hdU]
    push_cast; rfl
  · subst hdec
    have : ((n : ℕ) : Rat) = ((a.step : Int) : Rat) := by exact_mod_cast hna
    rw [this, interp_last valU pre a hs, hu]

/-- below the threshold 0.001 the code returns the field of the step itself -/
theorem velocity_below_threshold (m : FM) (f : Rat) (hf : f < 1/1000) : m.velocity f = m.u := by
  unfold FM.velocity
  rw [if_pos hf]

/-- **velocity_frac**: a velocity requested a fraction `f` of a step ahead (`f = 0` or
    `1/1000 ≤ f ≤ 1`; the tracker asks for 0, ½ and 1) equals the same interpolation evaluated
    at the later time `n + f` — at frame steps too. -/
theorem velocity_frac (frames : List Frame) (valU valS : Nat → Nat → Rat) (hasS : Bool) (last : Int)
    (hs : Sorted frames) (hc : Covers frames last) (n : Nat) (hn : (n : Int) < last)
    (f : Rat) (hf : f = 0 ∨ (1/1000 ≤ f ∧ f ≤ 1)) :
    ∃ m0 m, FM.init frames valU valS hasS = some m0 ∧
      FM.run m0 valU valS hasS (n + 1) = some m ∧
      interpFrames frames valU ((n : Rat) + f) = some (m.velocity f) := by
  obtain ⟨m0, m, hinit, hrun, _, _, hinv⟩ :=
    run_spec frames valU valS hasS last hs hc n (le_of_lt hn)
  refine ⟨m0, m, hinit, hrun, ?_⟩
  obtain ⟨_, _, ⟨g, hg, hgl⟩⟩ := hc
  rcases hinv with ⟨pre, a, b, post, hdec, hlo, hhi, hunew, hdU, hu, _⟩ | hlast
  swap
  · have := atLast_max hs hlast g hg
    omega
  subst hdec
  obtain ⟨hpre, hab, hpost⟩ := sorted_split hs
  have hpos : (0:ℤ) < b.step - a.step := by omega
  have hL : ((b.step - a.step : Int) : ℚ) ≠ 0 := by exact_mod_cast (ne_of_gt hpos)
  have hloQ : (a.step : Rat) ≤ (n : Rat) := by exact_mod_cast hlo
  have hhiQ : ((n : Rat) + 1) ≤ (b.step : Rat) := by exact_mod_cast (show (n : Int) + 1 ≤ b.step by omega)
  rcases hf with hf0 | ⟨hf1, hf2⟩
  · subst hf0
    rw [velocity_below_threshold m 0 (by norm_num), add_zero,
      interp_mid valU pre a b post hs (n : Rat) hloQ (by linarith), hu, hdU]
    push_cast; rfl
  · have hv : m.velocity f = m.u + f * m.dU := by
      unfold FM.velocity
      rw [if_neg (by linarith)]
    rw [hv]
    by_cases hlt : (n : Rat) + f < (b.step : Rat)
    · rw [interp_mid valU pre a b post hs _ (by linarith) hlt, hu, hdU]
      push_cast; ring_nf
    · -- `f = 1` and step `n + 1` is the next frame
      have hf1' : f = 1 := by linarith
      have hbn : (b.step : Rat) = (n : Rat) + 1 := by linarith
      subst hf1'
      have hub : m.u + 1 * m.dU = valU b.file b.idx := by
        rw [hu, hdU]
        have : ((n - a.step : Int) : Rat) = (b.step : Rat) - 1 - a.step := by
          push_cast; linarith
        rw [this]
        push_cast at hL ⊢
        field_simp
        ring
      rw [hub, ← hbn]
      cases post with
      | nil =>
        have hs' : Sorted ((pre ++ [a]) ++ [b]) := by simpa using hs
        have := interp_last valU (pre ++ [a]) b hs'
        simpa using this
      | cons c post' =>
        have hs' : Sorted ((pre ++ [a]) ++ b :: c :: post') := by simpa using hs
        have := interp_mid valU (pre ++ [a]) b c post' hs' (b.step : Rat) (le_refl _)
          (by exact_mod_cast hpost c (by simp))
        simpa using this

/-- **scalar_latest**: the scalar field in force is the latest frame at or before the step -/
theorem scalar_latest (frames : List Frame) (valU valS : Nat → Nat → Rat) (last : Int)
    (hs : Sorted frames) (hc : Covers frames last) (n : Nat) (hn : (n : Int) ≤ last) :
    ∃ m0 m, FM.init frames valU valS true = some m0 ∧
      FM.run m0 valU valS true (n + 1) = some m ∧
      latestFrame frames valS (n : Int) = some m.scal := by
  obtain ⟨m0, m, hinit, hrun, _, _, hinv⟩ := run_spec frames valU valS true last hs hc n hn
  refine ⟨m0, m, hinit, hrun, ?_⟩
  rcases hinv with ⟨pre, a, b, post, hdec, hlo, hhi, _, _, _, hsc⟩ | ⟨pre, a, hdec, hna, _, hsc⟩
  · subst hdec
    rw [latest_mid valS pre a b post hs (n : Int) hlo hhi, hsc rfl]
  · subst hdec
    rw [hna, latest_last valS pre a hs, hsc rfl]

/-- **reads_right_frame**: every read was made with the file open that holds the requested
    frame, at that frame's index — however the frames are split over files. -/
theorem reads_right_frame (frames : List Frame) (valU valS : Nat → Nat → Rat) (hasS : Bool) (last : Int)
    (hs : Sorted frames) (hc : Covers frames last) (n : Nat) (hn : (n : Int) ≤ last)
    (m0 m : FM) (h0 : FM.init frames valU valS hasS = some m0)
    (hr : FM.run m0 valU valS hasS (n + 1) = some m) :
    ∀ r ∈ m.reads, ∃ fr ∈ frames, fr.step = r.1 ∧ fr.file = r.2.1 ∧ fr.idx = r.2.2 := by
  obtain ⟨m0', m', hinit, hrun, _, hreads, _⟩ := run_spec frames valU valS hasS last hs hc n hn
  rw [h0] at hinit
  cases hinit
  rw [hr] at hrun
  cases hrun
  exact hreads

/-! non-vacuity: frames at steps −1, 1, 4 in two files; start between the first two -/
def exFrames : List Frame := [⟨-1, 0, 0⟩, ⟨1, 0, 1⟩, ⟨4, 1, 0⟩]
def exVal : Nat → Nat → Rat := fun f i => if f = 0 then (if i = 0 then 2 else 6) else 12

example : Sorted exFrames ∧ Covers exFrames 4 := by
  refine ⟨by simp [Sorted, exFrames], by decide, ⟨⟨-1, 0, 0⟩, by decide, by decide⟩, ⟨⟨4, 1, 0⟩, by decide, by decide⟩⟩

example : ((FM.init exFrames exVal exVal true).bind (fun m => FM.run m exVal exVal true 3)).map (·.u) = some 8 := by
  decide +kernel

end Ladim.C03
