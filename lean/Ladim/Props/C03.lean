import Ladim.Model.Forcing
import Mathlib.Tactic.Linarith
import Mathlib.Tactic.Ring
import Mathlib.Tactic.FieldSimp
import Mathlib.Tactic.Push
import Mathlib.Algebra.Order.Field.Rat
import Mathlib.Data.List.Basic
/-
C03 — forcing in time.  Property theorems about the time machine `Ladim.Model.Forcing`
(`Forcing.__init__`, `Forcing.update`, `Forcing.velocity`, `_select_file` of `ladim/ROMS.py`).

Quantification: every frame table sorted strictly by step (any spacing ≥ 1, regular or not),
any assignment of the frames to files, any start offset (the first frame at or before step 0),
any run length the frames cover, any frame contents.  The direction of time only enters
through the step numbers (`time2step` mirrors them) and a sign at sampling time, so the same
theorems cover reversed runs (see `Ladim.Props.C10`).
-/

namespace Ladim.C03
open Ladim FM

/-- frame table strictly sorted by step -/
def Sorted (frames : List Frame) : Prop := frames.Pairwise (fun a b => a.step < b.step)

/-- the frames cover the run: one at or before step 0, one at or after step `last`, `last ≥ 1` -/
def Covers (frames : List Frame) (last : Int) : Prop :=
  1 ≤ last ∧ (∃ f ∈ frames, f.step ≤ 0) ∧ (∃ f ∈ frames, last ≤ f.step)

/-- **init_ok**: on a covered, sorted table the start-up succeeds -/
theorem init_ok (frames : List Frame) (valU valS : Nat → Nat → Rat) (hasS : Bool) (last : Int)
    (hs : Sorted frames) (hc : Covers frames last) :
    ∃ m0, FM.init frames valU valS hasS = some m0 := by
  sorry

/-- **u_eq_interp**: after the update of step `n` (for every `n` the frames cover) the running
    field equals the linear interpolation between the two frames that bracket step `n`
    (the frame itself at a frame step). -/
theorem u_eq_interp (frames : List Frame) (valU valS : Nat → Nat → Rat) (hasS : Bool) (last : Int)
    (hs : Sorted frames) (hc : Covers frames last) (n : Nat) (hn : (n : Int) ≤ last) :
    ∃ m0 m, FM.init frames valU valS hasS = some m0 ∧
      FM.run m0 valU valS hasS (n + 1) = some m ∧
      interpFrames frames valU (n : Rat) = some m.u := by
  sorry

/-- **velocity_frac**: a velocity requested a fraction `f` of a step ahead (`f = 0` or
    `1/1000 ≤ f ≤ 1`; the tracker asks for 0, ½ and 1) equals the same interpolation evaluated
    at the later time `n + f` — at frame steps too. -/
theorem velocity_frac (frames : List Frame) (valU valS : Nat → Nat → Rat) (hasS : Bool) (last : Int)
    (hs : Sorted frames) (hc : Covers frames last) (n : Nat) (hn : (n : Int) < last)
    (f : Rat) (hf : f = 0 ∨ (1/1000 ≤ f ∧ f ≤ 1)) :
    ∃ m0 m, FM.init frames valU valS hasS = some m0 ∧
      FM.run m0 valU valS hasS (n + 1) = some m ∧
      interpFrames frames valU ((n : Rat) + f) = some (m.velocity f) := by
  sorry

/-- below the threshold 0.001 the code returns the field of the step itself -/
theorem velocity_below_threshold (m : FM) (f : Rat) (hf : f < 1/1000) : m.velocity f = m.u := by
  sorry

/-- **scalar_latest**: the scalar field in force is the latest frame at or before the step -/
theorem scalar_latest (frames : List Frame) (valU valS : Nat → Nat → Rat) (last : Int)
    (hs : Sorted frames) (hc : Covers frames last) (n : Nat) (hn : (n : Int) ≤ last) :
    ∃ m0 m, FM.init frames valU valS true = some m0 ∧
      FM.run m0 valU valS true (n + 1) = some m ∧
      latestFrame frames valS (n : Int) = some m.scal := by
  sorry

/-- **reads_right_frame**: every read was made with the file open that holds the requested
    frame, at that frame's index — however the frames are split over files. -/
theorem reads_right_frame (frames : List Frame) (valU valS : Nat → Nat → Rat) (hasS : Bool) (last : Int)
    (hs : Sorted frames) (hc : Covers frames last) (n : Nat) (hn : (n : Int) ≤ last)
    (m0 m : FM) (h0 : FM.init frames valU valS hasS = some m0)
    (hr : FM.run m0 valU valS hasS (n + 1) = some m) :
    ∀ r ∈ m.reads, ∃ fr ∈ frames, fr.step = r.1 ∧ fr.file = r.2.1 ∧ fr.idx = r.2.2 := by
  sorry

/-! non-vacuity: frames at steps −1, 1, 4 in two files; start between the first two -/
def exFrames : List Frame := [⟨-1, 0, 0⟩, ⟨1, 0, 1⟩, ⟨4, 1, 0⟩]
def exVal : Nat → Nat → Rat := fun f i => if f = 0 then (if i = 0 then 2 else 6) else 12

example : Sorted exFrames ∧ Covers exFrames 4 := by
  refine ⟨by decide, by decide, ⟨⟨-1, 0, 0⟩, by decide, by decide⟩, ⟨⟨4, 1, 0⟩, by decide, by decide⟩⟩

example : ((FM.init exFrames exVal exVal true).bind (fun m => FM.run m exVal exVal true 3)).map (·.u) = some 8 := by
  decide

end Ladim.C03
