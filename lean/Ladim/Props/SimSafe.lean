import Ladim.Props.SimBounds
import Ladim.Props.Simulation
/-
C09 and C17 for the whole simulation, together: in a cold, sparse `Sim.run` (coordinates not
rounded) of a well-shaped set-up whose release rows lie at valid positions (strictly inside the
valid region of the loaded grid, in a sea cell), every particle of every record is at a valid
position, and the flag `__oob__` — which `RomsSetup.move` sets when the tracker fails to find
an array element — is never set: no step of the run reads outside an array.
-/

namespace Ladim.SimSafe
open Ladim

/-- the particle was never moved by a tracker step that read outside an array -/
def NoOob (p : RP) : Prop := PState.lookup p.vars "__oob__" = none

/-- a name has no value exactly when it is not a key -/
theorem lookup_none_iff (l : List (String × Val)) (k : String) :
    PState.lookup l k = none ↔ Whole.hasKey l k = false := by
  simp [PState.lookup, Whole.hasKey]

/-- a fold of `setVar`s over names other than `nm` does not make `nm` a key -/
theorem hasKey_foldVars_ne {α : Type} (c : String × α → Val) (L : List (String × α)) (nm : String)
    (hn : ∀ e ∈ L, e.1 ≠ nm) :
    ∀ vs : List (String × Val), Whole.hasKey vs nm = false → Whole.hasKey (Whole.foldVars c L vs) nm = false := by
  induction L with
  | nil => intro vs h; exact h
  | cons e L ih =>
    intro vs h
    rw [Whole.foldVars_cons]
    apply ih (fun e' he' => hn e' (List.mem_cons_of_mem _ he'))
    rw [Whole.hasKey_setVar, h]
    simp [hn e List.mem_cons_self]

/-- `Whole.specRecord_all` with the tracker hypothesis restricted to the steps `0 … n-1` the
    record of step `n` depends on -/
theorem specRecord_all_upto (env : RunEnv) (P : RP → Prop) (n : Nat)
    (hrel : ∀ k p i, p ∈ env.release k → P { p with pid := i })
    (hf : ∀ k p, P p → P (env.force k p))
    (hm : ∀ j : Nat, j < n → ∀ p, P p → P (env.move (j : Int) p))
    (hi : ∀ k p, P p → P (env.ibm k p)) : ∀ p ∈ RunEnv.specRecord env n, P p := by
  have hadv : ∀ (k : Nat) (p : RP) (m : Nat), k + m ≤ n → P p → P (RunEnv.advance env (k : Int) p m) := by
    intro k p m
    induction m with
    | zero => intro _ hp; exact hf _ p hp
    | succ m ih =>
      intro hle hp
      show P (env.force _ (env.ibm _ (env.move ((k : Int) + (m : Int)) _)))
      apply hf
      apply hi
      have := hm (k + m) (by omega) _ (ih (by omega) hp)
      rw [Nat.cast_add] at this
      exact this
  intro p hp
  unfold RunEnv.specRecord at hp
  obtain ⟨q, hq, rfl⟩ := List.mem_map.1 (List.mem_filter.1 hp).1
  obtain ⟨⟨k, r⟩, i⟩ := q
  have hmem : (k, r) ∈ RunEnv.releasedUpTo env n := List.fst_mem_of_mem_zipIdx hq
  unfold RunEnv.releasedUpTo at hmem
  obtain ⟨j, hjr, hj⟩ := List.mem_flatMap.1 hmem
  obtain ⟨r', hr', he⟩ := List.mem_map.1 hj
  cases he
  have hjn : j < n + 1 := List.mem_range.1 hjr
  simp only [Int.toNat_natCast]
  exact hadv j _ (n - j) (by omega) (hrel _ _ _ hr')

/-- the scalar forcing variables of the run's environment carry the names of `rawS` -/
theorem setup_scalar_names (s : Sim) (g : GridM) (nrun : Nat) (relTable : List (Int × List RRow))
    (rnd : Rat → Rat) : ∀ e ∈ (s.setup g nrun relTable rnd).scalars, e.1 ∈ s.rawS.map (·.1) := by
  intro e he
  simp only [Sim.setup, Sim.forcingSetup, ForcingSetup.toRoms, List.map_map, List.mem_map] at he
  obtain ⟨a, ha, rfl⟩ := he
  exact List.mem_map.2 ⟨a, ha, rfl⟩

/-- **records_safe**: every particle of every record of the run is at a valid position and was
    never moved by an out-of-range tracker step -/
theorem records_safe (s : Sim) (res : SimResult) (tk : TK) (g : GridM) (rel : Rel)
    (hp : Simulation.Parts s id res tk g rel) (hw : s.warm = none) (hsp : s.sparse = true)
    (N jmax imax : Int) (hwf : SimBounds.WF s N jmax imax)
    (hcol : ∀ j i col, column g.zr j i = some col → col.Pairwise (· < ·))
    (hrows : ∀ k, ∀ p ∈ (Simulation.envOf s g rel res.nsteps id).release k, C09.Valid g p.x p.y ∧ NoOob p)
    (hnoScal : ∀ nm ∈ s.rawS.map (·.1), nm ≠ "__oob__")
    (n : Nat) (hn : n < res.nsteps) (hdue : Int.fmod (n : Int) s.period = 0) (parts : List RP)
    (hrec : ((n : Int), parts) ∈ res.final.records) :
    ∀ p ∈ parts, C09.Valid g p.x p.y ∧ NoOob p := by
  have hspec := (Simulation.records_are_spec s id res tk g rel hp hw hsp n hn hdue).2 parts hrec
  rw [hspec]
  let st := s.setup g (res.nsteps + 1) (rel.run 0 (res.nsteps + 1)) id
  apply specRecord_all_upto (Simulation.envOf s g rel res.nsteps id)
    (fun p => C09.Valid g p.x p.y ∧ NoOob p) n
  · intro k p i hpm
    exact hrows k p hpm
  · intro k p ⟨hv, ho⟩
    show C09.Valid g (st.force k p).x (st.force k p).y ∧ NoOob (st.force k p)
    rw [Whole.force_eq]
    refine ⟨hv, ?_⟩
    unfold NoOob at ho ⊢
    rw [lookup_none_iff] at ho ⊢
    apply hasKey_foldVars_ne _ _ _ _ _ ho
    intro e he
    exact hnoScal _ (setup_scalar_names s g _ _ _ e he)
  · intro j hj p ⟨hv, ho⟩
    show C09.Valid g (st.move (j : Int) p).x (st.move (j : Int) p).y ∧ NoOob (st.move (j : Int) p)
    obtain ⟨q, hq, he⟩ := SimBounds.tracker_in_bounds s N jmax imax hwf g hp.hgrid hcol rel res.nsteps id j
      (by omega) p hv
    rw [he]
    refine ⟨?_, ho⟩
    obtain ⟨p1, hp1, hx, hy, -, -⟩ := C09.trackerStep_cases _ _ _ _ _ _ _ _ q hq
    have := C09.valid_preserved _ _ _ _ _ _ p1 (show C09.Valid g
      ({ x := p.x, y := p.y, z := p.z, alive := p.alive, active := p.active } : Part).x
      ({ x := p.x, y := p.y, z := p.z, alive := p.alive, active := p.active } : Part).y from hv) hp1
    show C09.Valid g (id q.x) (id q.y)
    rw [id, id, hx, hy]
    exact this
  · intro k p ⟨hv, ho⟩
    show C09.Valid g (st.ibm k p).x (st.ibm k p).y ∧ NoOob (st.ibm k p)
    unfold NoOob at ho ⊢
    rw [lookup_none_iff] at ho ⊢
    unfold RomsSetup.ibm
    simp only []
    by_cases ha : st.ageing = true <;> by_cases hk : (st.kills k).contains p.pid = true
    · simp only [ha, hk, if_true]
      refine ⟨hv, ?_⟩
      rw [Whole.hasKey_setVar, ho]; decide
    · simp only [ha, hk, if_true, Bool.false_eq_true, if_false]
      refine ⟨hv, ?_⟩
      rw [Whole.hasKey_setVar, ho]; decide
    · simp only [ha, hk, if_true, Bool.false_eq_true, if_false]
      exact ⟨hv, ho⟩
    · simp only [ha, hk, Bool.false_eq_true, if_false]
      exact ⟨hv, ho⟩

end Ladim.SimSafe
