import Ladim.Model.Run
import Ladim.Model.Time
import Ladim.Model.Release
import Mathlib.Tactic.Linarith
import Mathlib.Data.List.Basic
import Mathlib.Data.List.Perm.Basic
/-
C14 — particles are independent; runs are reproducible and time-shift invariant.

`run_refines_spec` is the refinement theorem between the concrete loop of `Ladim.Model.Run`
(arrays, pid counter, removal of the dead, output moments) and the per-particle specification
`specRecord`: every record is "every particle released so far, numbered in release order,
advanced on its own by the per-particle step function, the dead left out".  Independence,
subset/permutation invariance and determinism are then statements about `specRecord`.

Diffusion off: the environment functions are deterministic functions of the particle's own
record and the step (the random kicks of C11 are the only source of nondeterminism).
-/

namespace Ladim.C14
open Ladim RunEnv

/-- nobody revives a particle, nobody changes a pid, the forcing does not kill -/
structure Sane (env : RunEnv) : Prop where
  force_alive : ∀ n p, (env.force n p).alive = p.alive
  move_dead : ∀ n p, p.alive = false → (env.move n p).alive = false
  ibm_dead : ∀ n p, p.alive = false → (env.ibm n p).alive = false
  force_pid : ∀ n p, (env.force n p).pid = p.pid
  move_pid : ∀ n p, (env.move n p).pid = p.pid
  ibm_pid : ∀ n p, (env.ibm n p).pid = p.pid

/-! ### helpers: the unfiltered specification list and the loop invariant -/

/-- tracker and IBM of step `n` for one particle -/
def gstep (env : RunEnv) (n : Int) (p : RP) : RP := env.ibm n (env.move n p)

/-- `specRecord` before the dead are left out -/
def full (env : RunEnv) (n : Nat) : List RP :=
  ((releasedUpTo env n).zipIdx).map
    (fun ((k, p), i) => advance env k { p with pid := i } (n - k.toNat))

theorem specRecord_eq_full (env : RunEnv) (n : Nat) :
    specRecord env n = (full env n).filter (·.alive) := rfl

theorem releasedUpTo_zero (env : RunEnv) :
    releasedUpTo env 0 = (env.release ((0 : Nat) : Int)).map (fun p => (((0 : Nat) : Int), p)) := by
  unfold releasedUpTo
  simp [List.range_succ]

theorem releasedUpTo_succ (env : RunEnv) (n : Nat) :
    releasedUpTo env (n + 1) = releasedUpTo env n ++
      (env.release ((n + 1 : Nat) : Int)).map (fun p => (((n + 1 : Nat) : Int), p)) := by
  unfold releasedUpTo
  rw [List.range_succ, List.flatMap_append]
  simp

theorem mem_releasedUpTo {env : RunEnv} {n : Nat} {x : Int × RP} (h : x ∈ releasedUpTo env n) :
    ∃ j : Nat, j ≤ n ∧ x.1 = (j : Int) := by
  unfold releasedUpTo at h
  rw [List.mem_flatMap] at h
  obtain ⟨j, hj, hx⟩ := h
  rw [List.mem_map] at hx
  obtain ⟨p, _, rfl⟩ := hx
  exact ⟨j, by have := List.mem_range.1 hj; omega, rfl⟩

/-- the rows released at step `n`, numbered from `len`, at the record moment of step `n` -/
theorem new_part (env : RunEnv) (n len : Nat) :
    ((((env.release (n : Int)).map (fun p => ((n : Int), p))).zipIdx len).map
      (fun ((k, p), i) => advance env k { p with pid := i } (n - k.toNat)))
      = (assignPids len (env.release (n : Int))).map (env.force (n : Int)) := by
  unfold assignPids
  rw [List.zipIdx_map, List.map_map, List.map_map, List.zipIdx_eq_map_add (i := len), List.map_map]
  apply List.map_congr_left
  rintro ⟨p, i⟩ _
  simp [advance]

/-- the state arrays at the start of step `n` if nothing were ever removed -/
def prev (env : RunEnv) : Nat → List RP
  | 0 => []
  | n + 1 => (full env n).map (gstep env (n : Int))

/-- the pid counter at the start of step `n` -/
def cnt (env : RunEnv) : Nat → Nat
  | 0 => 0
  | n + 1 => (releasedUpTo env n).length

theorem full_eq (env : RunEnv) (n : Nat) :
    full env n = (prev env n ++ assignPids (cnt env n) (env.release (n : Int))).map (env.force (n : Int)) := by
  cases n with
  | zero =>
    unfold full
    rw [releasedUpTo_zero]
    simpa [prev, cnt] using new_part env 0 0
  | succ n =>
    unfold full
    rw [releasedUpTo_succ, List.zipIdx_append, List.map_append, List.map_append, Nat.zero_add,
      new_part env (n + 1) (releasedUpTo env n).length]
    congr 1
    simp only [prev, full, List.map_map]
    apply List.map_congr_left
    rintro ⟨⟨k, p⟩, i⟩ hx
    obtain ⟨j, hj, hk⟩ := mem_releasedUpTo (List.fst_mem_of_mem_zipIdx hx)
    simp only at hk
    subst hk
    have h1 : n + 1 - (j : Int).toNat = (n - (j : Int).toNat) + 1 := by simp; omega
    have h2 : (j : Int) + ((n - (j : Int).toNat : Nat) : Int) = (n : Int) := by simp; omega
    simp only [Function.comp, h1, advance, advance1, h2, gstep]
    simp

theorem cnt_succ (env : RunEnv) (n : Nat) :
    cnt env (n + 1) = cnt env n + (env.release (n : Int)).length := by
  cases n with
  | zero => simp [cnt, releasedUpTo_zero]
  | succ n => simp [cnt, releasedUpTo_succ env n]

/-- pids are labels: `advance` keeps them -/
theorem advance_pid (env : RunEnv) (hs : Sane env) (k : Int) (p : RP) (m : Nat) :
    (advance env k p m).pid = p.pid := by
  induction m with
  | zero => simp [advance, hs.force_pid]
  | succ m ih => simp [advance, advance1, hs.force_pid, hs.ibm_pid, hs.move_pid, ih]

theorem full_length (env : RunEnv) (n : Nat) : (full env n).length = (releasedUpTo env n).length := by
  simp [full]

theorem full_pids (env : RunEnv) (hs : Sane env) (n : Nat) :
    (full env n).map (·.pid) = List.range (full env n).length := by
  rw [full_length, List.range_eq_range', ← List.zipIdx_map_snd 0 (releasedUpTo env n)]
  unfold full
  rw [List.map_map]
  apply List.map_congr_left
  rintro ⟨⟨k, p⟩, i⟩ _
  simp [advance_pid env hs]

/-! ### one `update` -/

def parts2 (env : RunEnv) (n : Int) (s : RState) : List RP :=
  ((if env.sparse then s.parts.filter (·.alive) else s.parts) ++
    assignPids s.npid (env.release n)).map (env.force n)

def doOut (env : RunEnv) (n : Int) : Bool := decide (0 ≤ n) && env.due n

def parts3 (env : RunEnv) (n : Int) (s : RState) : List RP :=
  if doOut env n && env.sparse then (parts2 env n s).filter (·.alive) else parts2 env n s

theorem update_parts (env : RunEnv) (n : Int) (s : RState) :
    (update env n s).parts = (parts3 env n s).map (gstep env n) := by
  simp [update, stepBody, parts3, parts2, doOut, gstep, Function.comp_def]

theorem assignPids_length (k : Nat) (l : List RP) : (assignPids k l).length = l.length := by
  simp [assignPids]

theorem update_npid (env : RunEnv) (n : Int) (s : RState) :
    (update env n s).npid = s.npid + (env.release n).length := by
  simp [update, stepBody, assignPids_length]

theorem update_records (env : RunEnv) (n : Int) (s : RState) :
    (update env n s).records =
      if doOut env n then s.records ++ [(n, parts3 env n s)] else s.records := by
  simp [update, stepBody, parts3, parts2, doOut]

theorem updates_snoc (env : RunEnv) : ∀ (j : Nat) (first : Int) (s : RState),
    updates env first (j + 1) s = update env (first + (j : Int)) (updates env first j s)
  | 0, first, s => by simp [updates]
  | j + 1, first, s => by
    have h := updates_snoc env j (first + 1) (update env first s)
    have e : first + 1 + (j : Int) = first + ((j + 1 : Nat) : Int) := by push_cast; omega
    rw [e] at h
    exact h

def stateAt (env : RunEnv) (n : Nat) : RState := env.updates 0 n empty

theorem stateAt_succ (env : RunEnv) (n : Nat) :
    stateAt env (n + 1) = update env (n : Int) (stateAt env n) := by
  unfold stateAt
  rw [updates_snoc]
  simp

/-- records of a cold run: exactly the due steps, each once -/
theorem records_char (env : RunEnv) (R : Nat → List RP)
    (hR : ∀ n : Nat, env.due (n : Int) = true → parts3 env (n : Int) (stateAt env n) = R n) :
    ∀ (N : Nat) (m : Int) (parts : List RP), (m, parts) ∈ (stateAt env N).records ↔
      ∃ n : Nat, n < N ∧ m = (n : Int) ∧ env.due (n : Int) = true ∧ parts = R n := by
  intro N
  induction N with
  | zero => intro m parts; simp [stateAt, updates, empty]
  | succ N ih =>
    intro m parts
    rw [stateAt_succ, update_records]
    have hd : doOut env (N : Int) = env.due (N : Int) := by simp [doOut]
    rw [hd]
    by_cases hdue : env.due (N : Int) = true
    · rw [if_pos hdue, List.mem_append, ih, hR N hdue]
      constructor
      · rintro (⟨n, hn, h1, h2, h3⟩ | h)
        · exact ⟨n, by omega, h1, h2, h3⟩
        · simp only [List.mem_singleton, Prod.mk.injEq] at h
          exact ⟨N, by omega, h.1, hdue, h.2⟩
      · rintro ⟨n, hn, h1, h2, h3⟩
        by_cases hnN : n = N
        · subst hnN
          right
          simp [h1, h3]
        · left
          exact ⟨n, by omega, h1, h2, h3⟩
    · rw [if_neg hdue, ih]
      constructor
      · rintro ⟨n, hn, h1, h2, h3⟩
        exact ⟨n, by omega, h1, h2, h3⟩
      · rintro ⟨n, hn, h1, h2, h3⟩
        have : n ≠ N := by rintro rfl; exact hdue h2
        exact ⟨n, by omega, h1, h2, h3⟩

/-! ### the sparse layout -/

theorem filter_alive_map_force (env : RunEnv) (hs : Sane env) (n : Int) (l : List RP) :
    (l.map (env.force n)).filter (·.alive) = (l.filter (·.alive)).map (env.force n) := by
  rw [List.filter_map]
  congr 1
  apply List.filter_congr
  intro x _
  simp [Function.comp, hs.force_alive]

theorem gstep_dead (env : RunEnv) (hs : Sane env) (n : Int) (p : RP) (h : p.alive = false) :
    (gstep env n p).alive = false :=
  hs.ibm_dead n _ (hs.move_dead n p h)

/-- filtering the dead before or after tracker and IBM gives the same living set -/
theorem filter_alive_map_gstep (env : RunEnv) (hs : Sane env) (n : Int) (l : List RP) :
    (l.map (gstep env n)).filter (·.alive) = ((l.filter (·.alive)).map (gstep env n)).filter (·.alive) := by
  induction l with
  | nil => rfl
  | cons a l ih =>
    cases ha : a.alive
    · have := gstep_dead env hs n a ha
      simp [ha, this, ih]
    · simp only [List.map_cons, List.filter_cons, ha, if_true, ih]

theorem sparse_step (env : RunEnv) (hs : Sane env) (hsp : env.sparse = true) (n : Nat) (s : RState)
    (hp : s.parts.filter (·.alive) = (prev env n).filter (·.alive)) (hc : s.npid = cnt env n) :
    (parts2 env (n : Int) s).filter (·.alive) = specRecord env n := by
  unfold parts2
  rw [specRecord_eq_full, full_eq, filter_alive_map_force env hs, filter_alive_map_force env hs]
  congr 1
  simp only [hsp, if_true, List.filter_append, List.filter_filter, Bool.and_self, hp, hc]

theorem sparse_parts3 (env : RunEnv) (hs : Sane env) (hsp : env.sparse = true) (n : Nat) (s : RState)
    (hp : s.parts.filter (·.alive) = (prev env n).filter (·.alive)) (hc : s.npid = cnt env n) :
    (parts3 env (n : Int) s).filter (·.alive) = specRecord env n ∧
    (env.due (n : Int) = true → parts3 env (n : Int) s = specRecord env n) := by
  have h2 := sparse_step env hs hsp n s hp hc
  have hd : doOut env (n : Int) = env.due (n : Int) := by simp [doOut]
  unfold parts3
  rw [hd, hsp, Bool.and_true]
  constructor
  · split
    · simp only [List.filter_filter, Bool.and_self]; exact h2
    · exact h2
  · intro h
    rw [if_pos h]; exact h2

theorem sparse_inv (env : RunEnv) (hs : Sane env) (hsp : env.sparse = true) (n : Nat) :
    (stateAt env n).parts.filter (·.alive) = (prev env n).filter (·.alive) ∧
    (stateAt env n).npid = cnt env n := by
  induction n with
  | zero => simp [stateAt, updates, empty, prev, cnt]
  | succ n ih =>
    obtain ⟨hp, hc⟩ := ih
    rw [stateAt_succ, update_parts, update_npid, cnt_succ, hc]
    refine ⟨?_, rfl⟩
    rw [filter_alive_map_gstep env hs, (sparse_parts3 env hs hsp n _ hp hc).1, specRecord_eq_full,
      ← filter_alive_map_gstep env hs]
    rfl

/-- **run_refines_spec** (sparse layout): the record written at every due step `n` of a cold
    run is exactly the specification's record. -/
theorem run_refines_spec (env : RunEnv) (hs : Sane env) (hsp : env.sparse = true) (N n : Nat)
    (hn : n < N) (hdue : env.due n = true) :
    ((n : Int), specRecord env n) ∈ (env.coldRun N).records ∧
    ∀ parts, ((n : Int), parts) ∈ (env.coldRun N).records → parts = specRecord env n := by
  have hchar := records_char env (fun n => specRecord env n) (fun n h =>
    (sparse_parts3 env hs hsp n _ (sparse_inv env hs hsp n).1 (sparse_inv env hs hsp n).2).2 h) N
  change (_ ∈ (stateAt env N).records) ∧ ∀ parts, (_ ∈ (stateAt env N).records) → _
  constructor
  · exact (hchar _ _).2 ⟨n, hn, rfl, hdue, rfl⟩
  · intro parts hmem
    obtain ⟨n', _, h1, _, h3⟩ := (hchar _ _).1 hmem
    have : n = n' := by exact_mod_cast h1
    subst this
    exact h3

/-! ### the dense layout -/

theorem dense_parts3 (env : RunEnv) (hsp : env.sparse = false) (n : Nat) (s : RState)
    (hp : s.parts = prev env n) (hc : s.npid = cnt env n) :
    parts3 env (n : Int) s = full env n := by
  unfold parts3 parts2
  rw [full_eq]
  simp [hsp, hp, hc]

theorem dense_inv (env : RunEnv) (hsp : env.sparse = false) (n : Nat) :
    (stateAt env n).parts = prev env n ∧ (stateAt env n).npid = cnt env n := by
  induction n with
  | zero => simp [stateAt, updates, empty, prev, cnt]
  | succ n ih =>
    obtain ⟨hp, hc⟩ := ih
    rw [stateAt_succ, update_parts, update_npid, cnt_succ, hc, dense_parts3 env hsp n _ hp hc]
    exact ⟨rfl, rfl⟩

/-- **run_refines_spec** (dense layout): nothing is ever removed, array position = pid, and the
    living part of the record state is the specification's record. -/
theorem run_refines_spec_dense (env : RunEnv) (hs : Sane env) (hsp : env.sparse = false) (N n : Nat)
    (hn : n < N) (parts : List RP) (hr : ((n : Int), parts) ∈ (env.coldRun N).records) :
    parts.filter (·.alive) = specRecord env n ∧ parts.map (·.pid) = List.range parts.length := by
  have hchar := records_char env (fun n => full env n) (fun n _ =>
    dense_parts3 env hsp n _ (dense_inv env hsp n).1 (dense_inv env hsp n).2) N
  have _ := hn
  change (_ ∈ (stateAt env N).records) at hr
  obtain ⟨n', _, h1, _, h3⟩ := (hchar _ _).1 hr
  have : n = n' := by exact_mod_cast h1
  subst this
  subst h3
  exact ⟨rfl, full_pids env hs n⟩

/-- record pids: strictly increasing, `pid[k] ≥ k` (sparse records) -/
theorem record_pids_sorted (env : RunEnv) (hs : Sane env) (n : Nat) :
    ((specRecord env n).map (·.pid)).Pairwise (· < ·) := by
  rw [specRecord_eq_full]
  have hsub : (((full env n).filter (·.alive)).map (·.pid)).Sublist ((full env n).map (·.pid)) :=
    List.Sublist.map _ List.filter_sublist
  rw [full_pids env hs] at hsub
  exact List.Pairwise.sublist hsub List.pairwise_lt_range

/-- **particle_independent**: the trajectory of a released particle is computed from its own
    release row, its release step and the environment's per-particle functions only — two
    environments with the same forcing, tracker and IBM but different release tables (other
    rows removed, added, reordered) advance it identically. -/
theorem particle_independent (env env' : RunEnv) (hf : env'.force = env.force) (hm : env'.move = env.move)
    (hi : env'.ibm = env.ibm) (k : Int) (p : RP) (m : Nat) : advance env' k p m = advance env k p m := by
  induction m with
  | zero => simp [advance, hf]
  | succ m ih => simp [advance, advance1, hf, hm, hi, ih]

/-- the per-particle functions do not look at the pid (it is a label) -/
structure PidBlind (env : RunEnv) : Prop where
  force : ∀ n p i, env.force n { p with pid := i } = { env.force n p with pid := i }
  move : ∀ n p i, env.move n { p with pid := i } = { env.move n p with pid := i }
  ibm : ∀ n p i, env.ibm n { p with pid := i } = { env.ibm n p with pid := i }

/-- renumbering commutes with the whole trajectory -/
theorem advance_relabel (env : RunEnv) (hb : PidBlind env) (k : Int) (p : RP) (i : Nat) (m : Nat) :
    advance env k { p with pid := i } m = { advance env k p m with pid := i } := by
  induction m with
  | zero => simp only [advance]; exact hb.force k p i
  | succ m ih =>
    simp only [advance, advance1, ih]
    rw [hb.move, hb.ibm, hb.force]

/-- forget the pid -/
def strip (p : RP) : RP := { p with pid := 0 }

theorem strip_alive (p : RP) : (strip p).alive = p.alive := rfl

theorem strip_relabel (p : RP) (i : Nat) : strip { p with pid := i } = strip p := rfl

/-- up to renumbering, the record is "advance every released row on its own, drop the dead" -/
theorem specRecord_strip (env : RunEnv) (hb : PidBlind env) (n : Nat) :
    (specRecord env n).map strip =
      ((releasedUpTo env n).map (fun x => strip (advance env x.1 x.2 (n - x.1.toNat)))).filter (·.alive) := by
  have hfm : ∀ l : List RP, (l.filter (·.alive)).map strip = (l.map strip).filter (·.alive) := by
    intro l
    rw [List.filter_map]
    rfl
  unfold specRecord
  rw [hfm, List.map_map]
  congr 1
  conv_rhs => rw [← List.zipIdx_map_fst 0 (releasedUpTo env n), List.map_map]
  apply List.map_congr_left
  rintro ⟨⟨k, p⟩, i⟩ _
  show strip (advance env k { p with pid := i } _) = strip (advance env k p _)
  rw [advance_relabel env hb]
  rfl

theorem pidBlind_congr (env env' : RunEnv) (hb : PidBlind env) (hf : env'.force = env.force)
    (hm : env'.move = env.move) (hi : env'.ibm = env.ibm) : PidBlind env' :=
  ⟨by rw [hf]; exact hb.force, by rw [hm]; exact hb.move, by rw [hi]; exact hb.ibm⟩

theorem sublist_flatMap {α β : Type} (l : List α) (f g : α → List β)
    (h : ∀ a, (f a).Sublist (g a)) : (l.flatMap f).Sublist (l.flatMap g) := by
  induction l with
  | nil => simp
  | cons a l ih => simp only [List.flatMap_cons]; exact List.Sublist.append (h a) ih

/-- **subset_permutation_invariant**: if at every step the release rows of `env'` are a
    permutation of a sub-multiset… precisely: a sublist (rows removed, order kept) of those of
    `env`, every record of `env'` is, up to renumbering, a sublist of the record of `env`;
    nothing else about the surviving particles changes. -/
theorem subset_invariant (env env' : RunEnv) (hb : PidBlind env) (hf : env'.force = env.force)
    (hm : env'.move = env.move) (hi : env'.ibm = env.ibm)
    (hsub : ∀ k, (env'.release k).Sublist (env.release k)) (n : Nat) :
    ((specRecord env' n).map strip).Sublist ((specRecord env n).map strip) := by
  rw [specRecord_strip env hb, specRecord_strip env' (pidBlind_congr env env' hb hf hm hi)]
  simp only [particle_independent env env' hf hm hi]
  apply List.Sublist.filter
  apply List.Sublist.map
  unfold releasedUpTo
  apply sublist_flatMap
  intro k
  exact List.Sublist.map _ (hsub _)

/-- reordering the rows inside a release time permutes the record, up to renumbering -/
theorem permutation_invariant (env env' : RunEnv) (hb : PidBlind env) (hf : env'.force = env.force)
    (hm : env'.move = env.move) (hi : env'.ibm = env.ibm)
    (hperm : ∀ k, (env'.release k).Perm (env.release k)) (n : Nat) :
    ((specRecord env' n).map strip).Perm ((specRecord env n).map strip) := by
  rw [specRecord_strip env hb, specRecord_strip env' (pidBlind_congr env env' hb hf hm hi)]
  simp only [particle_independent env env' hf hm hi]
  apply List.Perm.filter
  apply List.Perm.map
  unfold releasedUpTo
  apply List.Perm.flatMap_left
  intro k _
  exact List.Perm.map _ (hperm _)

/-- **time_shift_invariant** (clock): shifting start, stop and a time by the same amount leaves
    its step number and the number of steps unchanged; hence forcing frames and release rows fall
    on the same steps and the environment — and every trajectory — is literally the same. -/
theorem time_shift_invariant (tk : TK) (d t : Int) :
    let tk' : TK := { tk with start := tk.start + d, stop := tk.stop + d }
    tk'.time2step (t + d) = tk.time2step t ∧ tk'.step2time (tk.time2step t) = tk.step2time (tk.time2step t) + d := by
  intro tk'
  have e1 : tk.start + d - (t + d) = tk.start - t := by omega
  have e2 : t + d - (tk.start + d) = t - tk.start := by omega
  constructor
  · simp only [TK.time2step, tk', e1, e2]
  · simp only [TK.step2time, tk']
    split <;> omega

theorem tk_init_nsteps (s e dt : Int) (ref : Option Int) (rev : Bool) (tk : TK)
    (h : TK.init (some s) (some e) dt ref rev = .ok tk) :
    tk.nsteps = Int.fdiv ((e - s).natAbs : Int) dt := by
  unfold TK.init at h
  simp only at h
  split_ifs at h
  cases h
  rfl

theorem time_shift_nsteps (s e dt d : Int) (ref : Option Int) (rev : Bool) (tk tk' : TK)
    (h : TK.init (some s) (some e) dt ref rev = .ok tk)
    (h' : TK.init (some (s + d)) (some (e + d)) dt (ref.map (· + d)) rev = .ok tk') :
    tk'.nsteps = tk.nsteps := by
  rw [tk_init_nsteps _ _ _ _ _ _ h, tk_init_nsteps _ _ _ _ _ _ h']
  have : e + d - (s + d) = e - s := by omega
  rw [this]

/-! ### the releaser under a time shift -/

def shiftRow (d : Int) (x : RRow) : RRow := { x with time := x.time + d }

def shiftCfg (d : Int) (c : RelCfg) : RelCfg := { c with start := c.start + d, stop := c.stop + d }

theorem before_shift (rev : Bool) (a b d : Int) : Rel.before rev (a + d) (b + d) = Rel.before rev a b := by
  unfold Rel.before
  split <;> simp

def ins (acc : List Int) (t : Int) : List Int := if acc.contains t then acc else acc ++ [t]

theorem uniqueTimes_eq (rows : List RRow) : uniqueTimes rows = (rows.map (·.time)).foldl ins [] := by
  unfold uniqueTimes
  rw [List.foldl_map]
  rfl

theorem contains_shift (d : Int) (l : List Int) (t : Int) :
    (l.map (· + d)).contains (t + d) = l.contains t := by
  induction l with
  | nil => rfl
  | cons a l ih => simp

theorem foldl_ins_shift (d : Int) (l : List Int) : ∀ acc : List Int,
    (l.map (· + d)).foldl ins (acc.map (· + d)) = (l.foldl ins acc).map (· + d) := by
  induction l with
  | nil => intro acc; rfl
  | cons t l ih =>
    intro acc
    simp only [List.map_cons, List.foldl_cons]
    have : ins (acc.map (· + d)) (t + d) = (ins acc t).map (· + d) := by
      unfold ins
      rw [contains_shift]
      split <;> simp
    rw [this]
    exact ih _

/-- `uniqueTimes` only looks at the times, and commutes with the shift -/
theorem uniqueTimes_shift (d : Int) (l l' : List RRow)
    (h : l'.map (·.time) = (l.map (·.time)).map (· + d)) :
    uniqueTimes l' = (uniqueTimes l).map (· + d) := by
  rw [uniqueTimes_eq, uniqueTimes_eq, h]
  exact foldl_ins_shift d _ []

theorem arangeInt_shift (a b s d : Int) :
    arangeInt (a + d) (b + d) s = (arangeInt a b s).map (· + d) := by
  unfold arangeInt
  have e1 : b + d - (a + d) = b - a := by omega
  have e2 : a + d - (b + d) = a - b := by omega
  have e3 : (a + d < b + d) = (a < b) := by simp
  have e4 : (b + d < a + d) = (b < a) := by simp
  have e5 : ∀ l : List Nat, l.map (fun (k : Nat) => a + d + s * (k : Int)) =
      (l.map (fun (k : Nat) => a + s * (k : Int))).map (· + d) := by
    intro l
    rw [List.map_map]
    apply List.map_congr_left
    intro k _
    simp only [Function.comp]
    omega
  simp only [e1, e2, e3, e4, e5]
  split
  · split <;> simp
  · split
    · split <;> simp
    · simp

/-- one tick of the forward fill in `discretize` -/
def dstep (ft : List Int) (rows : List RRow) (acc : List RRow × List RRow) (tick : Int) :
    List RRow × List RRow :=
  let cur := if ft.contains tick then rows.filter (·.time == tick) else acc.2
  (acc.1 ++ cur.map (fun r => { r with time := tick }), cur)

theorem discretize_eq (c : RelCfg) (rows : List RRow) :
    Rel.discretize c rows = match uniqueTimes rows with
      | [] => []
      | t0 :: _ => ((arangeInt t0 c.stop (if c.rev then -c.freq else c.freq)).foldl
          (dstep (uniqueTimes rows) rows) ([], [])).1 := rfl

theorem filter_shift (d : Int) (q q' : Int → Bool) (hq : ∀ t, q' (t + d) = q t) (l : List RRow) :
    (l.map (shiftRow d)).filter (fun r => q' r.time) = (l.filter (fun r => q r.time)).map (shiftRow d) := by
  rw [List.filter_map]
  congr 1
  apply List.filter_congr
  intro x _
  simp [Function.comp, shiftRow, hq]

theorem dstep_shift (d : Int) (ft : List Int) (rows : List RRow) (acc : List RRow × List RRow)
    (tick : Int) :
    dstep (ft.map (· + d)) (rows.map (shiftRow d))
        (acc.1.map (shiftRow d), acc.2.map (shiftRow d)) (tick + d)
      = ((dstep ft rows acc tick).1.map (shiftRow d), (dstep ft rows acc tick).2.map (shiftRow d)) := by
  unfold dstep
  have hf : (rows.map (shiftRow d)).filter (fun r => r.time == tick + d) =
      (rows.filter (fun r => r.time == tick)).map (shiftRow d) :=
    filter_shift d (fun t => t == tick) (fun t => t == tick + d) (by intro t; simp) rows
  simp only [contains_shift, hf]
  split <;> simp [List.map_map, Function.comp_def, shiftRow]

theorem foldl_dstep_shift (d : Int) (ft : List Int) (rows : List RRow) (ticks : List Int) :
    ∀ acc : List RRow × List RRow,
    (ticks.map (· + d)).foldl (dstep (ft.map (· + d)) (rows.map (shiftRow d)))
        (acc.1.map (shiftRow d), acc.2.map (shiftRow d))
      = ((ticks.foldl (dstep ft rows) acc).1.map (shiftRow d),
         (ticks.foldl (dstep ft rows) acc).2.map (shiftRow d)) := by
  induction ticks with
  | nil => intro acc; rfl
  | cons t ticks ih =>
    intro acc
    simp only [List.map_cons, List.foldl_cons]
    rw [dstep_shift]
    exact ih _

theorem shiftRow_times (d : Int) (l : List RRow) :
    (l.map (shiftRow d)).map (·.time) = (l.map (·.time)).map (· + d) := by
  simp [List.map_map, Function.comp_def, shiftRow]

theorem discretize_shift (c : RelCfg) (d : Int) (l : List RRow) :
    Rel.discretize (shiftCfg d c) (l.map (shiftRow d)) = (Rel.discretize c l).map (shiftRow d) := by
  rw [discretize_eq, discretize_eq, uniqueTimes_shift d l _ (shiftRow_times d l)]
  cases uniqueTimes l with
  | nil => rfl
  | cons t0 tl =>
    simp only [List.map_cons]
    have hstop : (shiftCfg d c).stop = c.stop + d := rfl
    have hrev : (shiftCfg d c).rev = c.rev := rfl
    have hfreq : (shiftCfg d c).freq = c.freq := rfl
    rw [hstop, hrev, hfreq, arangeInt_shift]
    have := foldl_dstep_shift d (t0 :: tl) l (arangeInt t0 c.stop (if c.rev then -c.freq else c.freq)) ([], [])
    simp only [List.map_cons, List.map_nil] at this
    rw [this]

/-- the table after the window filters, tick expansion and warm-start skip (`r4` of `Rel.init`) -/
def stage4 (c : RelCfg) (rows : List RRow) : List RRow :=
  let r1 := rows.filter (fun r => Rel.before c.rev r.time c.stop)
  let r2 := if c.continuous then Rel.discretize c r1 else r1
  let r3 := r2.filter (fun r => !(Rel.before c.rev r.time c.start))
  if c.warm then r3.filter (fun r => !(Rel.before c.rev r.time (if c.rev then c.start - c.dt else c.start + c.dt))) else r3

def addc (x : RRow) : RRow := { x with cols := x.cols ++ [("release_time", Val.num x.time)] }

def stage5 (c : RelCfg) (rows : List RRow) : List RRow :=
  if c.releaseTimeCol then (stage4 c rows).map addc else stage4 c rows

def tkOf (c : RelCfg) : TK :=
  { start := c.start, stop := c.stop, dt := c.dt, ref := 0, rev := c.rev, nsteps := 0, step := 0, time := 0 }

theorem init_ok (c : RelCfg) (rows : List RRow) (r : Rel) (h : Rel.init c rows = .ok r) :
    r.steps = (uniqueTimes (stage5 c rows)).map (tkOf c).time2step ∧
    r.groups = (uniqueTimes (stage5 c rows)).map (fun t => (stage5 c rows).filter (·.time == t)) ∧
    r.total = ((stage5 c rows).map (·.mult)).foldl (· + ·) 0 := by
  have hform : Rel.init c rows =
      if (rows.filter (fun r => Rel.before c.rev r.time c.stop)).isEmpty then .error .exit3 else
      if (stage4 c rows).isEmpty && !c.warm then .error .exit3 else
      .ok { steps := (uniqueTimes (stage5 c rows)).map (tkOf c).time2step,
            groups := (uniqueTimes (stage5 c rows)).map (fun t => (stage5 c rows).filter (·.time == t)),
            index := 0,
            total := ((stage5 c rows).map (·.mult)).foldl (· + ·) 0 } := rfl
  rw [hform] at h
  split_ifs at h
  cases h
  exact ⟨rfl, rfl, rfl⟩

theorem stage4_shift (c : RelCfg) (d : Int) (rows : List RRow) :
    stage4 (shiftCfg d c) (rows.map (shiftRow d)) = (stage4 c rows).map (shiftRow d) := by
  unfold stage4
  simp only [shiftCfg]
  rw [filter_shift d (fun t => Rel.before c.rev t c.stop) (fun t => Rel.before c.rev t (c.stop + d))
    (fun t => before_shift _ _ _ _)]
  have h2 : (if c.continuous then Rel.discretize (shiftCfg d c)
        ((rows.filter (fun r => Rel.before c.rev r.time c.stop)).map (shiftRow d))
      else (rows.filter (fun r => Rel.before c.rev r.time c.stop)).map (shiftRow d)) =
      (if c.continuous then Rel.discretize c (rows.filter (fun r => Rel.before c.rev r.time c.stop))
      else rows.filter (fun r => Rel.before c.rev r.time c.stop)).map (shiftRow d) := by
    split
    · exact discretize_shift c d _
    · rfl
  change (if c.warm then List.filter _ (List.filter _ (if c.continuous then Rel.discretize (shiftCfg d c) _ else _))
    else List.filter _ (if c.continuous then Rel.discretize (shiftCfg d c) _ else _)) = _
  rw [h2]
  rw [filter_shift d (fun t => !(Rel.before c.rev t c.start)) (fun t => !(Rel.before c.rev t (c.start + d)))
    (fun t => by simp only [before_shift])]
  split
  · exact filter_shift d
      (fun t => !(Rel.before c.rev t (if c.rev then c.start - c.dt else c.start + c.dt)))
      (fun t => !(Rel.before c.rev t (if c.rev then c.start + d - c.dt else c.start + d + c.dt)))
      (fun t => by
        have e : (if c.rev then c.start + d - c.dt else c.start + d + c.dt) =
            (if c.rev then c.start - c.dt else c.start + c.dt) + d := by
          split <;> omega
        rw [e, before_shift]) _
  · rfl

/-- what is compared of a row: multiplicity and the columns other than the absolute release time -/
def key (x : RRow) : Nat × List (String × Val) := (x.mult, x.cols.filter (·.1 != "release_time"))

/-- the final assembly for two decorations of the same table that differ by the shift -/
theorem assemble_shift (d : Int) (R : List RRow) (A A' : RRow → RRow)
    (ht : ∀ x, (A' x).time = (A x).time + d) (hm : ∀ x, (A' x).mult = (A x).mult)
    (hk : ∀ x, key (A' x) = key (A x)) :
    uniqueTimes (R.map A') = (uniqueTimes (R.map A)).map (· + d) ∧
    (R.map A').map (·.mult) = (R.map A).map (·.mult) ∧
    ∀ t, ((R.map A').filter (·.time == t + d)).map key = ((R.map A).filter (·.time == t)).map key := by
  refine ⟨?_, ?_, ?_⟩
  · apply uniqueTimes_shift
    simp only [List.map_map]
    apply List.map_congr_left
    intro x _
    simp [Function.comp, ht]
  · simp only [List.map_map]
    apply List.map_congr_left
    intro x _
    simp [Function.comp, hm]
  · intro t
    rw [List.filter_map, List.filter_map, List.map_map, List.map_map]
    have : key ∘ A' = key ∘ A := funext hk
    rw [this]
    congr 1
    apply List.filter_congr
    intro x _
    simp [Function.comp, ht]

/-- the releaser of the shifted set-up has the same release steps -/
theorem time_shift_release (c : RelCfg) (rows : List RRow) (d : Int) (r r' : Rel)
    (h : Rel.init c rows = .ok r)
    (h' : Rel.init { c with start := c.start + d, stop := c.stop + d }
            (rows.map (fun x => { x with time := x.time + d })) = .ok r') :
    r'.steps = r.steps ∧ r'.total = r.total ∧
    r'.groups.map (fun g => g.map (fun x => (x.mult, x.cols.filter (·.1 != "release_time")))) =
      r.groups.map (fun g => g.map (fun x => (x.mult, x.cols.filter (·.1 != "release_time")))) := by
  obtain ⟨hs, hg, ht⟩ := init_ok c rows r h
  obtain ⟨hs', hg', ht'⟩ := init_ok (shiftCfg d c) (rows.map (shiftRow d)) r' h'
  -- both decorated tables are images of the same `stage4` table
  obtain ⟨A, A', hA, hA', hat, ham, hak⟩ : ∃ A A' : RRow → RRow,
      stage5 c rows = (stage4 c rows).map A ∧
      stage5 (shiftCfg d c) (rows.map (shiftRow d)) = (stage4 c rows).map A' ∧
      (∀ x, (A' x).time = (A x).time + d) ∧ (∀ x, (A' x).mult = (A x).mult) ∧
      (∀ x, key (A' x) = key (A x)) := by
    unfold stage5
    rw [stage4_shift]
    have hrt : (shiftCfg d c).releaseTimeCol = c.releaseTimeCol := rfl
    rw [hrt]
    cases c.releaseTimeCol
    · exact ⟨id, shiftRow d, by simp, by simp, fun x => rfl, fun x => rfl, fun x => rfl⟩
    · refine ⟨addc, addc ∘ shiftRow d, by simp, by simp, fun x => rfl, fun x => rfl, fun x => ?_⟩
      simp [key, addc, shiftRow, List.filter_append]
  obtain ⟨hu, hmul, hgrp⟩ := assemble_shift d (stage4 c rows) A A' hat ham hak
  rw [hA] at hs hg ht
  rw [hA'] at hs' hg' ht'
  refine ⟨?_, ?_, ?_⟩
  · rw [hs, hs', hu, List.map_map]
    apply List.map_congr_left
    intro t _
    exact (time_shift_invariant (tkOf c) d t).1
  · rw [ht, ht', hmul]
  · change r'.groups.map (fun g => g.map key) = r.groups.map (fun g => g.map key)
    rw [hg, hg', hu, List.map_map, List.map_map, List.map_map]
    apply List.map_congr_left
    intro t _
    exact hgrp t

end Ladim.C14
