import Ladim.Props.Simulation
import Ladim.Props.Whole
import Ladim.Props.C14
/-
C06 / C07 at the level of the whole simulation: what a run *writes* does not depend on how the
output is organised.  Two simulations that differ only in the output period, the number of
records per file and the file name pattern compute the same states; hence

* `split_same_records`: with another number of records per file (in particular: unsplit) the
  files of the two runs hold, concatenated, the same records;
* `record_same_any_period`: a step that is an output step under both periods carries the same
  record in both runs (the record of a step does not depend on which other steps are written).

Both follow from `Simulation.files_faithful` / `Simulation.records_are_spec`: the records are
the per-particle specification `specRecord`, and `specRecord` reads the release, forcing, tracker
and IBM functions of the environment only — not its output schedule.
-/

namespace Ladim.SimOutputChoice
open Ladim RunEnv

/-- the same set-up with the output organised differently -/
def withOutput (s : Sim) (period numrec : Int) (stem suffix : String) : Sim :=
  { s with period := period, numrec := numrec, stem := stem, suffix := suffix }

/-- the specification of a record reads the four per-particle functions only -/
theorem specRecord_congr (env env' : RunEnv) (hr : env'.release = env.release) (hf : env'.force = env.force)
    (hm : env'.move = env.move) (hi : env'.ibm = env.ibm) (n : Nat) :
    specRecord env' n = specRecord env n := by
  have hadv : advance env' = advance env := by
    funext k p m
    exact C14.particle_independent env env' hf hm hi k p m
  unfold specRecord releasedUpTo
  rw [hr, hadv]

/-- `specRec` reads the environment through `specRecord` only -/
theorem specRec_congr (o : OutSpec) (env env' : RunEnv) (hr : env'.release = env.release)
    (hf : env'.force = env.force) (hm : env'.move = env.move) (hi : env'.ibm = env.ibm) :
    WholeOutput.specRec o env' = WholeOutput.specRec o env := by
  funext st
  unfold WholeOutput.specRec
  rw [specRecord_congr env env' hr hf hm hi]

/-- the two runs have the same clock, grid, release and number of steps -/
theorem same_parts (s : Sim) (period numrec : Int) (stem suffix : String) (rnd : Rat → Rat)
    (res res' : SimResult) (tk tk' : TK) (g g' : GridM) (rel rel' : Rel)
    (hp : Simulation.Parts s rnd res tk g rel)
    (hp' : Simulation.Parts (withOutput s period numrec stem suffix) rnd res' tk' g' rel') :
    tk' = tk ∧ g' = g ∧ rel' = rel ∧ res'.nsteps = res.nsteps := by
  have h1 : tk' = tk := by
    have a := hp'.htk
    have b := hp.htk
    change TK.init (some s.start) (some s.stop) s.dt s.ref s.rev = .ok tk' at a
    rw [b] at a
    injection a with a
    exact a.symm
  have h2 : g' = g := by
    have a := hp'.hgrid
    have b := hp.hgrid
    change mkGrid s.file s.sub = some g' at a
    rw [b] at a
    injection a with a
    exact a.symm
  have h3 : rel' = rel := by
    have a := hp'.hrel
    have b := hp.hrel
    change Rel.init s.relCfg s.rows = .ok rel' at a
    rw [b] at a
    injection a with a
    exact a.symm
  refine ⟨h1, h2, h3, ?_⟩
  rw [hp'.hnsteps, hp.hnsteps, h1]

/-- **split_same_records** (cold start, sparse layout): the same simulation written with `numrec'`
    records per file (`0`: one file) and under another file name: both runs end normally and the
    records retrieved from the two sets of files are the same, in the same order. -/
theorem split_same_records (s : Sim) (numrec' : Int) (stem' suffix' : String) (rnd : Rat → Rat)
    (res res' : SimResult)
    (h : s.run rnd = .ok res) (h' : (withOutput s s.period numrec' stem' suffix').run rnd = .ok res')
    (hw : s.warm = none) (hsp : s.sparse = true) (hper : 1 ≤ s.period)
    (hnum : 0 ≤ s.numrec) (hnum' : 0 ≤ numrec')
    (hnd : (s.outIv.filter (fun n => n != "pid")).Nodup)
    (hbig : Out.predictRecords res.nsteps s.period false ≤ 999999) :
    ∃ fs fs', res.files = .ok fs ∧ res'.files = .ok fs' ∧ C06.allRecords fs' = C06.allRecords fs ∧
      (∀ f ∈ fs, f.closed = true) ∧ (∀ f ∈ fs', f.closed = true) := by
  obtain ⟨tk, g, rel, hp⟩ := Simulation.run_ok s rnd res h
  obtain ⟨tk', g', rel', hp'⟩ := Simulation.run_ok _ rnd res' h'
  obtain ⟨rfl, rfl, rfl, hN⟩ := same_parts s s.period numrec' stem' suffix' rnd res res' _ _ _ _ _ _ hp hp'
  obtain ⟨fs, hfs, hrec, hcl⟩ := Simulation.files_faithful s rnd res _ _ _ hp hw hsp hper hnum hnd (fun _ => hbig)
  obtain ⟨fs', hfs', hrec', hcl'⟩ := Simulation.files_faithful (withOutput s s.period numrec' stem' suffix') rnd res' _ _ _ hp'
    hw hsp hper hnum' hnd (fun _ => by rw [hN]; exact hbig)
  refine ⟨fs, fs', hfs, hfs', ?_, hcl, hcl'⟩
  rw [hrec, hrec', hN]
  exact congrArg (fun f => (C07.dueSteps res.nsteps s.period).map f)
    (specRec_congr (s.outSpec tk' (rel'.run 0 (res.nsteps + 1))) (Simulation.envOf s g' rel' res.nsteps rnd)
      (Simulation.envOf (withOutput s s.period numrec' stem' suffix') g' rel' res.nsteps rnd) rfl rfl rfl rfl)

/-- **record_same_any_period** (cold start, sparse layout): the same simulation with another output
    period: a step that is an output step of both runs has exactly one record in each, and the two
    are equal. -/
theorem record_same_any_period (s : Sim) (period' numrec' : Int) (stem' suffix' : String) (rnd : Rat → Rat)
    (res res' : SimResult)
    (h : s.run rnd = .ok res) (h' : (withOutput s period' numrec' stem' suffix').run rnd = .ok res')
    (hw : s.warm = none) (hsp : s.sparse = true)
    (n : Nat) (hn : n < res.nsteps)
    (hdue : Int.fmod (n : Int) s.period = 0) (hdue' : Int.fmod (n : Int) period' = 0) :
    res'.nsteps = res.nsteps ∧
    ∃ ps, ((n : Int), ps) ∈ res.final.records ∧ ((n : Int), ps) ∈ res'.final.records ∧
      (∀ q, ((n : Int), q) ∈ res.final.records → q = ps) ∧
      (∀ q, ((n : Int), q) ∈ res'.final.records → q = ps) := by
  obtain ⟨tk, g, rel, hp⟩ := Simulation.run_ok s rnd res h
  obtain ⟨tk', g', rel', hp'⟩ := Simulation.run_ok _ rnd res' h'
  obtain ⟨rfl, rfl, rfl, hN⟩ := same_parts s period' numrec' stem' suffix' rnd res res' _ _ _ _ _ _ hp hp'
  obtain ⟨hm, hu⟩ := Simulation.records_are_spec s rnd res _ _ _ hp hw hsp n hn hdue
  obtain ⟨hm', hu'⟩ := Simulation.records_are_spec (withOutput s period' numrec' stem' suffix') rnd res' _ _ _ hp'
    hw hsp n (by rw [hN]; exact hn) hdue'
  have he : specRecord (Simulation.envOf (withOutput s period' numrec' stem' suffix') g' rel' res'.nsteps rnd) n =
      specRecord (Simulation.envOf s g' rel' res.nsteps rnd) n := by
    rw [hN]
    exact specRecord_congr (Simulation.envOf s g' rel' res.nsteps rnd)
      (Simulation.envOf (withOutput s period' numrec' stem' suffix') g' rel' res.nsteps rnd) rfl rfl rfl rfl n
  rw [he] at hm' hu'
  exact ⟨hN, _, hm, hm', hu, hu'⟩

end Ladim.SimOutputChoice
