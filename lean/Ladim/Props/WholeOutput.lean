import Ladim.Model.RunOutput
import Ladim.Props.C06
import Ladim.Props.C07
import Ladim.Props.C14
/-
Composition for C06/C07: the output files of a whole cold run.  `C07.schedule_complete` (the
writer ends normally and holds one record per output step), `C06.record_faithful` (retrieval
through `particle_count` gives back what was written) and `C14.run_refines_spec` (what was
written is the per-particle specification) compose to: *record n of the files, retrieved the
documented way, is exactly the living particles of the specification at the n-th output step,
with its model time* — for every environment that never revives a particle, every run length,
output period and file split.
-/

namespace Ladim.WholeOutput
open Ladim RunEnv OutSpec

/-- the specified content of the record of output step `st`: time, pids, requested columns -/
def specRec (o : OutSpec) (env : RunEnv) (st : Int) : Rat × List Nat × List (String × Column) :=
  (o.time st, (specRecord env st.toNat).map (·.pid), o.names.map (fun nm => (nm, colOf (specRecord env st.toNat) nm)))

/-! ### helpers -/

/-- an association list in which key `k` is bound to `v` and to nothing else looks up `v` -/
theorem lookup_of_unique {β : Type} (l : List (Int × β)) (k : Int) (v : β)
    (hmem : (k, v) ∈ l) (huniq : ∀ v', (k, v') ∈ l → v' = v) : l.lookup k = some v := by
  induction l with
  | nil => cases hmem
  | cons x t ih =>
    obtain ⟨k', v'⟩ := x
    by_cases hk : k = k'
    · subst hk
      have := huniq v' (by simp)
      subst this
      simp [List.lookup]
    · have hmem' : (k, v) ∈ t := by
        rcases List.mem_cons.1 hmem with h | h
        · exact absurd (congrArg Prod.fst h) hk
        · exact h
      have hne : (k == k') = false := by simpa using hk
      rw [List.lookup, hne]
      exact ih hmem' (fun v'' h => huniq v'' (List.mem_cons_of_mem _ h))

/-- `write` never touches the output period -/
theorem write_period (o : Out) (s : Snapshot) (o' : Out) (hw : o.write s = .ok o') :
    o'.periodStep = o.periodStep := by
  rw [C06.write_eq] at hw
  split_ifs at hw <;> cases hw <;> rfl

/-- the output side of the time loop is the fold of `write` over the snapshots of the due steps -/
theorem runSteps_writes (snap : Int → Snapshot) (p : Int) :
    ∀ (steps : List Int) (o o' : Out), o.periodStep = p →
    Out.runSteps o snap steps = .ok o' →
    C06.writes o ((steps.filter (fun st => Int.fmod st p == 0)).map snap) = .ok o' := by
  intro steps
  induction steps with
  | nil =>
    intro o o' _ h
    simpa [Out.runSteps, C06.writes] using h
  | cons st rest ih =>
    intro o o' hp h
    unfold Out.runSteps at h
    simp only [Out.due, hp] at h
    by_cases hd : (Int.fmod st p == 0) = true
    · simp only [hd, if_true] at h
      simp only [List.filter_cons, hd, if_true, List.map_cons]
      unfold C06.writes
      cases hw : o.write (snap st) with
      | error e => rw [hw] at h; cases h
      | ok o1 =>
        rw [hw] at h
        exact ih o1 o' ((write_period o (snap st) o1 hw).trans hp) h
    · simp only [hd, Bool.false_eq_true, if_false] at h
      simp only [List.filter_cons, hd, Bool.false_eq_true, if_false]
      exact ih o o' hp h

/-- retrieval of a record does not look at the `closed` flag -/
theorem recs_closed (f : VFile) : C06.recs { f with closed := true } = C06.recs f := rfl

/-- `close` does not change what is retrieved from the files -/
theorem allRecords_close (o : Out) : C06.allRecords o.close.files = C06.allRecords o.files := by
  rw [C07.close_files, Out.files, C06.allRecords_append, C06.allRecords_append, recs_closed]

/-- the snapshots taken from a specified record are well shaped (the hypothesis of
    `C06.record_faithful`) -/
theorem snapshot_ok (o : OutSpec) (st : Int) (parts : List RP) : C06.SnapOK o.names (o.snapshotOf st parts) where
  cols_names := by
    simp [snapshotOf, List.map_map, Function.comp_def]
  cols_len := by
    intro c hc
    simp only [snapshotOf, List.mem_map] at hc
    obtain ⟨nm, _, rfl⟩ := hc
    simp [snapshotOf, colOf]
  alive_len := by
    simp [snapshotOf]

/-- **output_files_faithful** (sparse layout, cold start): the run's output ends normally and the
    records retrieved from its files are, in order, the specified records of the output steps
    `0, p, 2p, … < N`. -/
theorem output_files_faithful (o : OutSpec) (env : RunEnv) (hs : C14.Sane env) (hsp : env.sparse = true)
    (N : Nat) (period numrec : Int) (hp : 1 ≤ period) (hr : 0 ≤ numrec)
    (hdue : ∀ n, env.due n = (Int.fmod n period == 0))
    (hnd : o.names.Nodup)
    (hbig : numrec = 0 → Out.predictRecords N period false ≤ 999999)
    (stem suffix : String) :
    ∃ fs, o.runFiles .sparse N period numrec stem suffix (env.coldRun N).records false = .ok fs ∧
      C06.allRecords fs = (C07.dueSteps N period).map (specRec o env) ∧
      (∀ f ∈ fs, f.closed = true) := by
  -- the snapshot function of the run
  set snap : Int → Snapshot :=
    fun st => o.snapshotOf st ((((env.coldRun N).records).lookup st).getD []) with hsnap
  have hrun : o.runFiles .sparse N period numrec stem suffix (env.coldRun N).records false
      = Out.coldRun .sparse N period numrec stem suffix snap := rfl
  have hN : (0 : Int) ≤ (N : Int) := Int.natCast_nonneg N
  obtain ⟨fs, hfs, -, -⟩ :=
    C07.schedule_complete .sparse N period numrec hN hp hr hbig stem suffix snap
  refine ⟨fs, hrun.trans hfs, ?_, fun f hf => (C07.all_closed .sparse N period numrec hN hp hr stem suffix snap fs hfs f hf).1⟩
  -- the state at the end of the loop
  unfold Out.coldRun at hfs
  cases hrs : Out.runSteps (Out.init .sparse period (Out.predictRecords N period false) numrec stem suffix)
      snap (Out.stepRange 0 (N : Int).toNat) with
  | error e => rw [hrs] at hfs; cases hfs
  | ok out =>
    rw [hrs] at hfs
    obtain rfl := Except.ok.inj hfs
    have hw := runSteps_writes snap period _ _ out rfl hrs
    have hw' : C06.writes (Out.init .sparse period (Out.predictRecords N period false) numrec stem suffix)
        ((C07.dueSteps N period).map snap) = .ok out := hw
    obtain ⟨hrec, -⟩ := C06.record_faithful o.names hnd _ _ out rfl ⟨rfl, rfl, rfl, rfl, rfl⟩
      (by
        intro s hs'
        obtain ⟨st, _, rfl⟩ := List.mem_map.1 hs'
        exact snapshot_ok o st _) hw'
    rw [allRecords_close, hrec, List.map_map]
    apply List.map_congr_left
    intro st hst
    obtain ⟨h0, hlt, hdvd⟩ := (C07.dueSteps_spec N period hp st).1 hst
    obtain ⟨n, rfl⟩ := Int.eq_ofNat_of_zero_le h0
    have hnN : n < N := by exact_mod_cast hlt
    have hd : env.due (n : Int) = true := by
      rw [hdue, beq_iff_eq]
      exact (C07.fmod_eq_zero_iff _ _ hp).2 hdvd
    obtain ⟨hmem, huniq⟩ := C14.run_refines_spec env hs hsp N n hnN hd
    have hlk := lookup_of_unique _ _ _ hmem huniq
    simp only [Function.comp_def, hsnap, hlk, Option.getD_some, specRec, snapshotOf, Int.toNat_natCast]

end Ladim.WholeOutput
