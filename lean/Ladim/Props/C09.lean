import Ladim.Model.Tracker
import Mathlib.Data.Rat.Floor
import Mathlib.Tactic.Linarith
import Mathlib.Algebra.Order.Field.Rat
import Mathlib.Data.List.Basic
/-
C09 — particles stay in the water inside the domain; the dead stay dead.
Property theorems about `moveH` / `trackerStep` of `Ladim.Model.Tracker`, for every velocity
oracle (so every scheme's stage velocities and any forcing), every diffusive kick `du dv`,
every mask and every particle, lifted to every history of steps.
-/

namespace Ladim.C09
open Ladim

/-- the mask array of the loaded window is rectangular with the window's dimensions -/
structure MaskOK (g : GridM) : Prop where
  dims : 0 < g.i1 - g.i0 ∧ 0 < g.j1 - g.j0
  rows : (g.M.length : Int) = g.j1 - g.j0
  cols : ∀ r ∈ g.M, (r.length : Int) = g.i1 - g.i0

/-- where a particle may be: strictly inside the valid region, in a sea cell -/
def Valid (g : GridM) (x y : Rat) : Prop := g.ingrid x y = true ∧ g.atsea x y = some true

/-- `roundHalfEven x` is an integer within `1/2` of `x` -/
theorem roundHalfEven_near (x : Rat) :
    x - 1/2 ≤ (roundHalfEven x : Rat) ∧ (roundHalfEven x : Rat) ≤ x + 1/2 := by
  have hfl : x.floor = ⌊x⌋ := rfl
  have h1 : ((x.floor : Int) : Rat) ≤ x := by rw [hfl]; exact Int.floor_le x
  have h2 : x < ((x.floor : Int) : Rat) + 1 := by rw [hfl]; exact Int.lt_floor_add_one x
  unfold roundHalfEven
  simp only []
  split_ifs with a b c
  · constructor <;> linarith
  · push_cast; constructor <;> linarith
  · have : x - x.floor = 1/2 := le_antisymm (not_lt.mp b) (not_lt.mp a)
    constructor <;> linarith
  · have : x - x.floor = 1/2 := le_antisymm (not_lt.mp b) (not_lt.mp a)
    push_cast; constructor <;> linarith

/-- checked access inside the list succeeds, with an element of the list -/
theorem getI_some {α} (l : List α) (i : Int) (h0 : 0 ≤ i) (h1 : i < l.length) :
    ∃ a, getI l i = some a ∧ a ∈ l := by
  have hlt : i.toNat < l.length := by omega
  refine ⟨l[i.toNat], ?_, List.getElem_mem _⟩
  simp [getI, h0, hlt]

/-- a position strictly between `lo + 1/2` and `hi - 1 - 1/2` rounds to a cell `lo … hi - 1` -/
theorem round_in_range (lo hi : Int) (x : Rat) (h0 : (lo : Rat) + 1/2 < x)
    (h1 : x < ((hi - 1 : Int) : Rat) - 1/2) :
    0 ≤ roundHalfEven x - lo ∧ roundHalfEven x - lo < hi - lo := by
  obtain ⟨ha, hb⟩ := roundHalfEven_near x
  have h2 : (lo : Rat) < (roundHalfEven x : Rat) := by linarith
  have h3 : (roundHalfEven x : Rat) < ((hi - 1 : Int) : Rat) := by linarith
  have h2' : lo < roundHalfEven x := by exact_mod_cast h2
  have h3' : roundHalfEven x < hi - 1 := by exact_mod_cast h3
  constructor <;> omega

/-- **mask_lookup_in_range**: inside the valid region the land test reads inside the mask
    (the cell index `round(x) − i0` is `0 … imax−1`, likewise `j`). -/
theorem mask_lookup_in_range (g : GridM) (hg : MaskOK g) (x y : Rat) (h : g.ingrid x y = true) :
    ∃ b, g.atsea x y = some b := by
  simp only [GridM.ingrid, GridM.xmin, GridM.xmax, GridM.ymin, GridM.ymax, Bool.and_eq_true] at h
  obtain ⟨⟨⟨hx0, hx1⟩, hy0⟩, hy1⟩ := h
  obtain ⟨hi0, hi1⟩ := round_in_range g.i0 g.i1 x (of_decide_eq_true hx0) (of_decide_eq_true hx1)
  obtain ⟨hj0, hj1⟩ := round_in_range g.j0 g.j1 y (of_decide_eq_true hy0) (of_decide_eq_true hy1)
  obtain ⟨r, hr, hrm⟩ := getI_some g.M (g.cellJ y) hj0 (by rw [hg.rows]; exact hj1)
  obtain ⟨m, hm, _⟩ := getI_some r (g.cellI x) hi0 (by rw [hg.cols r hrm]; exact hi1)
  refine ⟨decide (0 < m), ?_⟩
  simp only [GridM.atsea, get2, hr, Option.bind_some, hm, Option.map_some]

/-- the proposed end point of `moveH` -/
def proposed (cfg : TrkCfg) (dx ua va du dv : Rat) (p : Part) : Rat × Rat :=
  (p.x + (ua + du) * cfg.dt / dx, p.y + (va + dv) * cfg.dt / dx)

/-- `moveH` spelled out: with the metric `dx` of the start cell and the scheme's velocity
    `(ua, va)`, the result is determined by the proposed end point -/
theorem moveH_cases (cfg : TrkCfg) (g : GridM) (vel : VelOracle) (du dv : Rat) (p q : Part)
    (h : moveH cfg g vel du dv p = some q) :
    ∃ dx ua va, g.metric p.x p.y = some dx ∧
      advect cfg.scheme g vel p.x p.y (cfg.dt / dx) (cfg.dt / dx) = some (ua, va) ∧
      let pr := proposed cfg dx ua va du dv p
      let out := !(g.ingrid pr.1 pr.2)
      q.z = p.z ∧ q.alive = (p.alive && !out) ∧ q.active = (p.active && !out) ∧
      ((p.active && !out) = true ∧ g.atsea pr.1 pr.2 = some true ∧ q.x = pr.1 ∧ q.y = pr.2 ∨
       q.x = p.x ∧ q.y = p.y) := by
  simp only [moveH, Option.bind_eq_bind, Option.bind_eq_some_iff, Option.pure_def,
    Option.some.injEq] at h
  obtain ⟨dx, hm, ⟨ua, va⟩, ha, sea, hsea, hq⟩ := h
  refine ⟨dx, ua, va, hm, ha, ?_⟩
  subst hq
  simp only [proposed]
  refine ⟨trivial, trivial, trivial, ?_⟩
  by_cases hact : (p.active && !!g.ingrid (p.x + (ua + du) * cfg.dt / dx) (p.y + (va + dv) * cfg.dt / dx)) = true
  · rw [if_pos hact] at hsea
    cases sea
    · right; simp
    · left; simp only [if_pos hact, if_true]
      exact ⟨hact, hsea, trivial, trivial⟩
  · right
    simp only [if_neg hact]
    split_ifs <;> exact ⟨rfl, rfl⟩

/-- **alive_inside_sea** (one step): a particle at a valid position is at a valid position
    after the step — whether it moved, was stopped at the coast, was killed at the boundary or
    was inactive. -/
theorem valid_preserved (cfg : TrkCfg) (g : GridM) (vel : VelOracle) (du dv : Rat) (p q : Part)
    (hv : Valid g p.x p.y) (h : moveH cfg g vel du dv p = some q) : Valid g q.x q.y := by
  obtain ⟨dx, ua, va, -, -, -, -, -, hpos⟩ := moveH_cases cfg g vel du dv p q h
  rcases hpos with ⟨hact, hsea, hx, hy⟩ | ⟨hx, hy⟩
  · rw [hx, hy]
    simp only [Bool.and_eq_true, Bool.not_not] at hact
    exact ⟨hact.2, hsea⟩
  · rw [hx, hy]; exact hv

/-- **out_of_grid_dies**: a move that would leave the valid region kills the particle, which
    stays (dead, inactive) where it was. -/
theorem out_of_grid_dies (cfg : TrkCfg) (g : GridM) (vel : VelOracle) (du dv : Rat) (p q : Part)
    (dx ua va : Rat) (hm : g.metric p.x p.y = some dx)
    (ha : advect cfg.scheme g vel p.x p.y (cfg.dt / dx) (cfg.dt / dx) = some (ua, va))
    (hout : g.ingrid (proposed cfg dx ua va du dv p).1 (proposed cfg dx ua va du dv p).2 = false)
    (h : moveH cfg g vel du dv p = some q) :
    q.alive = false ∧ q.active = false ∧ q.x = p.x ∧ q.y = p.y := by
  obtain ⟨dx', ua', va', hm', ha', -, hal, hac, hpos⟩ := moveH_cases cfg g vel du dv p q h
  rw [hm] at hm'; cases hm'
  rw [ha] at ha'; cases ha'
  simp only [hout, Bool.not_false, Bool.not_true, Bool.and_false] at hal hac hpos
  refine ⟨hal, hac, ?_⟩
  rcases hpos with ⟨hact, -⟩ | hxy
  · exact absurd hact (by simp)
  · exact hxy

/-- **land_cancel**: a move onto land is cancelled: the particle stays where it was, alive. -/
theorem land_cancel (cfg : TrkCfg) (g : GridM) (vel : VelOracle) (du dv : Rat) (p q : Part)
    (dx ua va : Rat) (hm : g.metric p.x p.y = some dx)
    (ha : advect cfg.scheme g vel p.x p.y (cfg.dt / dx) (cfg.dt / dx) = some (ua, va))
    (hin : g.ingrid (proposed cfg dx ua va du dv p).1 (proposed cfg dx ua va du dv p).2 = true)
    (hland : g.atsea (proposed cfg dx ua va du dv p).1 (proposed cfg dx ua va du dv p).2 = some false)
    (h : moveH cfg g vel du dv p = some q) :
    q.x = p.x ∧ q.y = p.y ∧ q.alive = p.alive ∧ q.active = p.active := by
  obtain ⟨dx', ua', va', hm', ha', -, hal, hac, hpos⟩ := moveH_cases cfg g vel du dv p q h
  rw [hm] at hm'; cases hm'
  rw [ha] at ha'; cases ha'
  simp only [hin, Bool.not_true, Bool.not_false, Bool.and_true] at hal hac hpos
  rcases hpos with ⟨-, hsea, -⟩ | ⟨hx, hy⟩
  · rw [hland] at hsea; cases hsea
  · exact ⟨hx, hy, hal, hac⟩

/-- **inactive_fixed**: inactive particles are not moved horizontally. -/
theorem inactive_fixed (cfg : TrkCfg) (g : GridM) (vel : VelOracle) (du dv : Rat) (p q : Part)
    (hi : p.active = false) (h : moveH cfg g vel du dv p = some q) : q.x = p.x ∧ q.y = p.y := by
  obtain ⟨dx, ua, va, -, -, -, -, -, hpos⟩ := moveH_cases cfg g vel du dv p q h
  rcases hpos with ⟨hact, -⟩ | hxy
  · rw [hi] at hact; exact absurd hact (by simp)
  · exact hxy

/-- `trackerStep` spelled out -/
theorem trackerStep_cases (cfg : TrkCfg) (g : GridM) (vel : VelOracle) (du dv wd wa : Rat) (p q : Part)
    (h : trackerStep cfg g vel du dv wd wa p = some q) :
    ∃ p1, moveH cfg g vel du dv p = some p1 ∧ q.x = p1.x ∧ q.y = p1.y ∧ q.alive = p1.alive ∧
      q.active = p1.active := by
  simp only [trackerStep, Option.bind_eq_bind, Option.bind_eq_some_iff, Option.pure_def,
    Option.some.injEq] at h
  obtain ⟨p1, hp1, z, -, hq⟩ := h
  subst hq
  exact ⟨p1, hp1, rfl, rfl, rfl, rfl⟩

/-- **dead_stay_dead** (one step): the tracker never revives a particle. -/
theorem dead_stay_dead (cfg : TrkCfg) (g : GridM) (vel : VelOracle) (du dv wd wa : Rat) (p q : Part)
    (hd : p.alive = false) (h : trackerStep cfg g vel du dv wd wa p = some q) : q.alive = false := by
  obtain ⟨p1, hp1, -, -, hal, -⟩ := trackerStep_cases cfg g vel du dv wd wa p q h
  obtain ⟨dx, ua, va, -, -, -, hal1, -⟩ := moveH_cases cfg g vel du dv p p1 hp1
  rw [hal, hal1, hd]; rfl

/-! ### every history -/

/-- one step's inputs for one particle: the forcing oracle of that step and the random /
    vertical velocities -/
structure StepIn where
  vel : VelOracle
  du : Rat
  dv : Rat
  wd : Rat
  wa : Rat

/-- a particle through a whole history of steps; `kill k` marks it dead after step `k` (the
    IBM, or nobody) -/
def history (cfg : TrkCfg) (g : GridM) (kill : Nat → Bool) : Nat → List StepIn → Part → Option Part
  | _, [], p => some p
  | k, s :: rest, p =>
    match trackerStep cfg g s.vel s.du s.dv s.wd s.wa p with
    | none => none
    | some q => history cfg g kill (k + 1) rest (if kill k then { q with alive := false } else q)

/-- **alive_inside_sea / dead_stay_dead** over every history: from a valid release position
    the particle is at a valid position after every step, and once dead (by leaving the grid or
    by the IBM) it is dead at the end. -/
theorem history_invariant (cfg : TrkCfg) (g : GridM) (kill : Nat → Bool) (k : Nat) (steps : List StepIn)
    (p q : Part) (hv : Valid g p.x p.y) (h : history cfg g kill k steps p = some q) :
    Valid g q.x q.y ∧ (p.alive = false → q.alive = false) := by
  induction steps generalizing k p with
  | nil =>
    simp only [history, Option.some.injEq] at h
    subst h
    exact ⟨hv, id⟩
  | cons s rest ih =>
    simp only [history] at h
    cases hstep : trackerStep cfg g s.vel s.du s.dv s.wd s.wa p with
    | none => rw [hstep] at h; cases h
    | some q1 =>
      rw [hstep] at h
      simp only [] at h
      obtain ⟨p1, hp1, hx, hy, -, -⟩ := trackerStep_cases cfg g s.vel s.du s.dv s.wd s.wa p q1 hstep
      have hv1 : Valid g q1.x q1.y := by
        rw [hx, hy]; exact valid_preserved cfg g s.vel s.du s.dv p p1 hv hp1
      have hd1 : p.alive = false → q1.alive = false :=
        fun hd => dead_stay_dead cfg g s.vel s.du s.dv s.wd s.wa p q1 hd hstep
      have hv2 : Valid g (if kill k then { q1 with alive := false } else q1).x
          (if kill k then { q1 with alive := false } else q1).y := by
        split_ifs <;> exact hv1
      obtain ⟨hvq, hdq⟩ := ih (k + 1) _ hv2 h
      refine ⟨hvq, fun hd => hdq ?_⟩
      split_ifs
      · rfl
      · exact hd1 hd

end Ladim.C09
