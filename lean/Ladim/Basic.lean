def hello := "world"
