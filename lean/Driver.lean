import Ladim.Driver.Util
import Ladim.Model.Output
import Ladim.Model.Sample
import Ladim.Model.Vertical
import Ladim.Model.Grid
import Ladim.Model.Tracker
import Ladim.Model.Forcing
import Ladim.Model.Analytical
import Ladim.Model.Release
import Ladim.Driver.RunOp
import Ladim.Model.Validate
import Ladim.Model.Config
import Ladim.Model.Params
import Ladim.Model.SimConfig
/-
Line-protocol driver: one JSON request per input line, one JSON response per output line.
It only *runs* the executable model definitions of `Ladim.Model.*`; it contains no logic of
its own beyond decoding and encoding.
-/
open Lean Ladim Drv

namespace Drv

/-! ### C13: clock -/

def tkSnap (tk : TK) (units : List String) : Json :=
  Json.mkObj [("step", intJ tk.step), ("time", intJ tk.time),
    ("nctime", listJ (fun u => optJ ratJ (tk.nctime u)) units)]

def opTk (j : Json) : R Json := do
  let start ← getOptInt j "start"
  let stop ← getOptInt j "stop"
  let dt ← getInt (← fld j "dt")
  let ref ← getOptInt j "ref"
  let rev ← getBool (← fld j "rev")
  let nupd ← getNat (← fld j "updates")
  let steps ← getList getInt (← fld j "steps")
  let times ← getList getInt (← fld j "times")
  let units ← getList (fun x => x.getStr?) (← fld j "units")
  match TK.init start stop dt ref rev with
  | .error e => pure (errJ e)
  | .ok tk =>
    let snaps := (List.range (nupd + 1)).map (fun k => tkSnap (tk.updates k) units)
    pure <| Json.mkObj [
      ("nsteps", intJ tk.nsteps), ("ref", intJ tk.ref),
      ("min", intJ tk.minTime), ("max", intJ tk.maxTime),
      ("clock", .arr snaps.toArray),
      ("step2time", listJ (fun n => intJ (tk.step2time n)) steps),
      ("time2step", listJ (fun t => intJ (tk.time2step t)) times),
      ("step2nctime", listJ (fun n => listJ (fun u => optJ ratJ (tk.step2nctime n u)) units) steps)]

def opPeriod (j : Json) : R Json := do
  let kind ← (← fld j "kind").getStr?
  let p ← match kind with
    | "secs" => do pure (PeriodIn.secs (← getInt (← fld j "n")))
    | "pair" => do pure (PeriodIn.pair (← getInt (← fld j "v")) (← (← fld j "unit").getStr?))
    | "badpair" => pure PeriodIn.badPair
    | "iso" => do pure (PeriodIn.iso (← (← fld j "s").getStr?))
    | _ => pure PeriodIn.other
  match normalizePeriod p with
  | .ok n => pure (Json.mkObj [("ok", intJ n)])
  | .error e => pure (errJ e)

/-! ### C05: state -/

def colsJ (l : List (String × Column)) : Json :=
  Json.mkObj (l.map (fun (n, c) => (n, listJ valJ c)))

def stateSnap (s : PState) : Json :=
  Json.mkObj [("pid", listJ natJ s.pid), ("npid", natJ s.npid),
    ("ivars", colsJ s.ivars), ("pvars", colsJ s.pvars)]

def getArg (j : Json) : R Arg :=
  match j with
  | .arr a => do pure (.array (← a.toList.mapM getVal))
  | _ => do pure (.scalar (← getVal j))

def stateOp (s : PState) (j : Json) : R (Except Refusal PState) := do
  let op ← (← fld j "op").getStr?
  match op with
  | "append" =>
    let ps ← getObjPairs (← fld j "args")
    let args ← ps.mapM (fun (k, v) => do pure (k, ← getArg v))
    pure (s.append args)
  | "kill" =>
    let m ← getList getBool (← fld j "mask")
    pure (.ok (s.kill m))
  | "compactify" => pure (.ok s.compactify)
  | "set" =>
    let var ← (← fld j "var").getStr?
    let vals ← getList getVal (← fld j "vals")
    pure (s.setitem var vals)
  | _ => throw s!"unknown state op {op}"

def opState (j : Json) : R Json := do
  let extraI ← getList (fun x => x.getStr?) (← fld j "extraI")
  let extraP ← getList (fun x => x.getStr?) (← fld j "extraP")
  let dps ← getObjPairs (← fld j "defaults")
  let defaults ← dps.mapM (fun (k, v) => do pure (k, ← getVal v))
  let ops ← (← fld j "ops").getArr?
  let mut s := PState.init extraI extraP defaults
  let mut out : Array Json := #[]
  for o in ops do
    match ← stateOp s o with
    | .ok s' => s := s'; out := out.push (stateSnap s)
    | .error e => out := out.push (errJ e)
  pure (.arr out)

/-! ### C06/C07: output -/

def getCols (j : Json) : R (List (String × Column)) := do
  let ps ← getObjPairs j
  ps.mapM (fun (k, v) => do pure (k, ← getList getVal v))

def getSnapshot (j : Json) : R Snapshot := do
  pure { time := ← getRat (← fld j "time"), pid := ← getList getNat (← fld j "pid"),
         alive := ← getList getBool (← fld j "alive"), cols := ← getCols (← fld j "cols"),
         npid := ← getNat (← fld j "npid"), pvars := ← getCols (← fld j "pvars") }

def vfileJ (f : VFile) : Json :=
  Json.mkObj [("name", .str f.name), ("time", listJ ratJ f.time), ("count", listJ natJ f.count),
    ("pid", listJ natJ f.pid), ("inst", colsJ f.inst),
    ("dense", listJ (fun rec => Json.mkObj (rec.map (fun (n, c) => (n, listJ (optJ valJ) c)))) f.dense),
    ("pvarN", optJ natJ f.pvarN), ("pvars", colsJ f.pvars), ("closed", .bool f.closed)]

/-- the output side of `main`: for step in range(first, nsteps): if due then write; finally close -/
def opOutRun (j : Json) : R Json := do
  let layout := if (← (← fld j "layout").getStr?) == "dense" then Layout.dense else Layout.sparse
  let nsteps ← getInt (← fld j "nsteps")
  let period ← getInt (← fld j "period")
  let numrec ← getInt (← fld j "numrec")
  let stem ← (← fld j "stem").getStr?
  let suffix ← (← fld j "suffix").getStr?
  let skip ← getBool (← fld j "skip_initial")
  let first ← getInt (← fld j "first_step")
  let last ← getInt (← fld j "last_step")
  let snaps ← getList getSnapshot (← fld j "snapshots")   -- one per due step, in order
  -- snapshots are supplied per due step, in order; look them up by step number
  let dueList := (Out.stepRange first (last - first + 1).toNat).filter (fun st => Int.fmod st period == 0)
  if dueList.length != snaps.length then throw s!"expected {dueList.length} snapshots, got {snaps.length}"
  let table := dueList.zip snaps
  let dflt : Snapshot := { time := 0, pid := [], alive := [], cols := [], npid := 0, pvars := [] }
  let snap (st : Int) : Snapshot := (table.lookup st).getD dflt
  let o0 := Out.init layout period (Out.predictRecords nsteps period skip) numrec stem suffix
  match Out.runSteps o0 snap (Out.stepRange first (last - first + 1).toNat) with
  | .error (st, e) => pure (Json.mkObj [("error", .str e.toString), ("at_step", intJ st)])
  | .ok o => pure (Json.mkObj [("files", listJ vfileJ o.close.files), ("num_records", intJ o.numRecords)])

def opGenName (j : Json) : R Json := do
  let stem ← (← fld j "stem").getStr?
  let suffix ← (← fld j "suffix").getStr?
  let n ← getNat (← fld j "n")
  pure (listJ (fun k => Json.str (genName stem suffix k)) (List.range n))

/-! ### C03: forcing in time -/

def getFrame (j : Json) : R Frame := do
  let a ← getList getInt j
  match a with
  | [s, f, i] => pure { step := s, file := f.toNat, idx := i.toNat }
  | _ => throw "frame = [step, file, idx]"

def tableFn (t : List (List Rat)) : Nat → Nat → Rat := fun f i => ((t[f]?).bind (·[i]?)).getD 0

def fmSnap (m : FM) (fracs : List Rat) : Json :=
  Json.mkObj [("vel", listJ (fun f => ratJ (m.velocity f)) fracs), ("scal", ratJ m.scal),
    ("open", optJ natJ m.openFile)]

def opForcing (j : Json) : R Json := do
  let frames ← getList getFrame (← fld j "frames")
  let valU := tableFn (← getList (getList getRat) (← fld j "valU"))
  let valS := tableFn (← getList (getList getRat) (← fld j "valS"))
  let hasS ← getBool (← fld j "scalar")
  let n ← getNat (← fld j "nsteps")
  let fracs ← getList getRat (← fld j "fracs")
  match FM.init frames valU valS hasS with
  | none => pure (Json.mkObj [("error", .str "init")])
  | some m0 =>
    let mut m := m0
    let mut out : Array Json := #[]
    let mut failed : Option Nat := none
    for k in List.range n do
      if failed.isNone then
        match m.update valU valS hasS (k : Int) with
        | some m' => m := m'; out := out.push (fmSnap m fracs)
        | none => failed := some k
    pure (Json.mkObj [("steps", .arr out), ("failed", optJ natJ failed),
      ("reads", listJ (fun (r : Int × Nat × Nat) => Json.arr #[intJ r.1, natJ r.2.1, natJ r.2.2]) m.reads),
      ("spec", listJ (fun (k : Nat) => listJ (fun f => optJ ratJ (interpFrames frames valU ((k : Rat) + f))) fracs) (List.range n)),
      ("spec_scal", listJ (fun (k : Nat) => optJ ratJ (latestFrame frames valS (k : Int))) (List.range n))])

/-! ### C02/C12/C16/C17: sampling, vertical grid, grid -/

def getF2 (j : Json) : R Field2 := getList (getList getRat) j
def getF3 (j : Json) : R Field3 := getList (getList (getList getRat)) j
def f2J (F : Field2) : Json := listJ (listJ ratJ) F

def opZ2s (j : Json) : R Json := do
  let zr ← getList getRat (← fld j "zr")
  let zs ← getList getRat (← fld j "Z")
  pure (listJ (fun z => match z2sCol zr z with
    | some (k, a) => Json.arr #[intJ k, ratJ a]
    | none => .null) zs)

def opSdepth (j : Json) : R Json := do
  let vt ← getNat (← fld j "vtransform")
  let H ← getRat (← fld j "H")
  let Hc ← getRat (← fld j "Hc")
  let C ← getList getRat (← fld j "C")
  let w ← getBool (← fld j "w")
  pure (listJ ratJ (sdepthCol vt H Hc C w))

/-- a float travels as its IEEE-754 bit pattern (exact) -/
def floatJ (x : Float) : Json := .str (toString x.toBits.toNat)

def getFloat (j : Json) : R Float := do
  let q ← getRat j
  pure (Float.ofInt q.num / Float.ofNat q.den)

def opSstretch (j : Json) : R Json := do
  let N ← getNat (← fld j "N")
  let ts ← getFloat (← fld j "theta_s")
  let tb ← getFloat (← fld j "theta_b")
  let w ← getBool (← fld j "w")
  let vs ← getNat (← fld j "vstretching")
  match sStretch N ts tb w vs with
  | some l => pure (listJ floatJ l)
  | none => pure (errJ .valueError)

/-- positions are in *grid* coordinates; the forcing subtracts `i0`, `j0` and rounds the cell
    before shifting -/
def opSample (j : Json) : R Json := do
  let U ← getF3 (← fld j "U")
  let V ← getF3 (← fld j "V")
  let zr ← getF3 (← fld j "zr")
  let S ← match fldOpt j "S" with | some s => do pure (some (← getF3 s)) | none => pure none
  let i0 ← getInt (← fld j "i0")
  let j0 ← getInt (← fld j "j0")
  let pts ← getList (getList getRat) (← fld j "points")   -- [x, y, Z, xs, ys]: cell from (x,y), sample at (xs,ys)
  let res := pts.map fun p =>
    match p with
    | [x, y, z, xs, ys] =>
      let xl : Rat := (roundHalfEven x - i0 : Int)
      let yl : Rat := (roundHalfEven y - j0 : Int)
      match z2s zr xl yl z with
      | none => Json.mkObj [("oob", .str "z2s")]
      | some (K, A) =>
        let uv := sample3DUV U V (xs - i0) (ys - j0) K A
        let sc := S.map (fun F => nearest F xl yl K)
        Json.mkObj [("K", intJ K), ("A", ratJ A),
          ("uv", match uv with | some (u, v) => Json.arr #[ratJ u, ratJ v] | none => .null),
          ("s", match sc with | some (some v) => ratJ v | some none => .str "oob" | none => .null)]
    | _ => Json.mkObj [("oob", .str "bad point")]
  pure (.arr res.toArray)

def opGrid (j : Json) : R Json := do
  let imax0 ← getInt (← fld j "imax0")
  let jmax0 ← getInt (← fld j "jmax0")
  let sub ← match fldOpt j "subgrid" with
    | some s => do
      let l ← getList getInt s
      match l with
      | [a, b, c, d] => pure (some (a, b, c, d))
      | _ => throw "subgrid = [i0,i1,j0,j1]"
    | none => pure none
  match subgridLimits imax0 jmax0 sub with
  | none => pure (errJ .exit1)
  | some (a, b, c, d) =>
    let M ← getF2 (← fld j "mask")
    let Ms := slice2 M c d a b
    pure (Json.mkObj [("limits", listJ intJ [a, b, c, d]), ("Mu", f2J (maskU Ms)), ("Mv", f2J (maskV Ms))])

def s2J : S2Result → Json
  | .value v => ratJ v
  | .raised => .str "ValueError"
  | .indexError => .str "IndexError"

def opSample2D (j : Json) : R Json := do
  let F ← getF2 (← fld j "F")
  let mask ← match fldOpt j "mask" with | some m => do pure (some (← getF2 m)) | none => pure none
  let undef ← getRat (← fld j "undef")
  let outside ← match fldOpt j "outside" with | some m => do pure (some (← getRat m)) | none => pure none
  let pts ← getList (getList getRat) (← fld j "points")
  pure (listJ (fun p => match p with
    | [x, y] => s2J (sample2D F x y mask undef outside)
    | _ => .null) pts)

/-- `bilin_inv` for single targets.  The Newton iterates are rounded to ~54 bits between
    iterations (`quantize`), because exact rationals square their size at every iteration. -/
def bilinInvQ (F G : Field2) (f g : Rat) (maxiter : Nat) (tol : Rat) : Option (Rat × Rat × Nat) :=
  let imax : Int := F.length
  let jmax : Int := (F.headD []).length
  let rec go (n : Nat) (x y : Rat) (it : Nat) : Option (Rat × Rat × Nat) :=
    match n with
    | 0 => some (x, y, it)
    | n + 1 =>
      match bilinInvStep F G f g x y with
      | none => none
      | some (x', y', H) => if H < tol then some (x, y, it) else go n (quantize x') (quantize y') (it + 1)
  go maxiter ((1 / 2 : Rat) * imax) ((1 / 2 : Rat) * jmax) 0

def opBilinInv (j : Json) : R Json := do
  let F ← getF2 (← fld j "F")
  let G ← getF2 (← fld j "G")
  let tol ← getRat (← fld j "tol")
  let maxiter ← getNat (← fld j "maxiter")
  let exact ← getBool (← fld j "exact")
  let pts ← getList (getList getRat) (← fld j "targets")
  pure (listJ (fun p => match p with
    | [f, g] =>
      if exact then
        (match bilinInv F G f g maxiter tol with
         | some (x, y) => Json.arr #[ratJ x, ratJ y]
         | none => .str "IndexError")
      else
        (match bilinInvQ F G f g maxiter tol with
         | some (x, y, it) => Json.arr #[ratJ x, ratJ y, natJ it]
         | none => .str "IndexError")
    | _ => .null) pts)

def getRomsFile (j : Json) : R RomsFile := do
  pure { h := ← getF2 (← fld j "h"), mask := ← getF2 (← fld j "mask"), dx := ← getF2 (← fld j "dx"),
         hc := ← getRat (← fld j "hc"), CsR := ← getList getRat (← fld j "Cs_r"),
         vtransform := ← getNat (← fld j "vtransform") }

def getSub (j : Json) : R (Option (Int × Int × Int × Int)) :=
  match fldOpt j "subgrid" with
  | some s => do
    let l ← getList getInt s
    match l with
    | [a, b, c, d] => pure (some (a, b, c, d))
    | _ => throw "subgrid = [i0,i1,j0,j1]"
  | none => pure none

/-- whole-file arrays + subgrid → what a particle feels (C02) -/
def opRomsSample (j : Json) : R Json := do
  let f ← getRomsFile (← fld j "file")
  let sub ← getSub j
  let rawU ← getF3 (← fld j "U")
  let rawV ← getF3 (← fld j "V")
  let rawS ← match fldOpt j "S" with | some s => do pure (some (← getF3 s)) | none => pure none
  let scale ← match fldOpt j "scale" with | some s => do pure (some (← getRat s)) | none => pure none
  let sign ← getRat (← fld j "sign")
  let pts ← getList (getList getRat) (← fld j "points")   -- [x0, y0, Z, x, y]
  match mkGrid f sub with
  | none => pure (errJ .exit1)
  | some g =>
    let U := windowU g rawU scale
    let V := windowV g rawV scale
    let S := rawS.map (windowRho g)
    let res := pts.map fun p =>
      match p with
      | [x0, y0, z, x, y] =>
        Json.mkObj [
          ("KA", match levelOf g x0 y0 z with | some (K, A) => Json.arr #[intJ K, ratJ A] | none => .str "oob"),
          ("uv", match sampleVel g U V sign x0 y0 z x y with | some (u, v) => Json.arr #[ratJ u, ratJ v] | none => .str "oob"),
          ("s", match S with
                | some F => (match sampleScalar g F x0 y0 z with | some v => ratJ v | none => .str "oob")
                | none => .null),
          ("metric", optJ ratJ (g.metric x0 y0)), ("depth", optJ ratJ (g.depth x0 y0)),
          ("atsea", match g.atsea x0 y0 with | some b => .bool b | none => .null),
          ("ingrid", .bool (g.ingrid x0 y0))]
      | _ => .null
    pure (Json.mkObj [("limits", listJ intJ [g.i0, g.i1, g.j0, g.j1]), ("points", .arr res.toArray)])

/-! ### C01/C09/C11/C15: tracker -/

def getGridM (j : Json) : R GridM := do
  pure { i0 := ← getInt (← fld j "i0"), i1 := ← getInt (← fld j "i1"),
         j0 := ← getInt (← fld j "j0"), j1 := ← getInt (← fld j "j1"),
         H := ← getF2 (← fld j "H"), M := ← getF2 (← fld j "M"), dx := ← getF2 (← fld j "dx"),
         zr := ← match fldOpt j "zr" with | some z => getF3 z | none => pure [] }

def getScheme (j : Json) : R Scheme := do
  match ← j.getStr? with
  | "EF" => pure .EF | "RK2" => pure .RK2 | "RK4" => pure .RK4 | _ => pure .none

/-- polynomial velocity oracle: `c0 + cx·x + cy·y + ct·frac + cxy·x·y + cxx·x² + ctt·frac²` -/
def polyVal (c : List Rat) (frac x y : Rat) : Rat :=
  match c with
  | [c0, cx, cy, ct, cxy, cxx, ctt] => c0 + cx * x + cy * y + ct * frac + cxy * x * y + cxx * x * x + ctt * frac * frac
  | _ => 0

def partJ (q : Part) : Json := Json.arr #[ratJ q.x, ratJ q.y, ratJ q.z, .bool q.alive, .bool q.active]

/-- `Tracker.update` iterated: the grid comes from whole-file arrays + subgrid (`mkGrid`),
    the forcing is a polynomial oracle, the random/vertical velocities are scripted per step -/
def opTracker (j : Json) : R Json := do
  let f ← getRomsFile (← fld j "file")
  let sub ← getSub j
  let cfg : TrkCfg := { scheme := ← getScheme (← fld j "scheme"), dt := ← getRat (← fld j "dt"),
                        vertAdv := ← getBool (← fld j "vertadv"), vertDiff := ← getBool (← fld j "vertdiff") }
  let cu ← getList getRat (← fld j "u")
  let cv ← getList getRat (← fld j "v")
  let vel : VelOracle := fun frac x y => some (polyVal cu frac x y, polyVal cv frac x y)
  let ps ← getList (getList getRat) (← fld j "particles")      -- [x, y, z, alive, active]
  let forc ← getList (getList (getList getRat)) (← fld j "forc") -- per step, per particle [du, dv, wd, wa]
  match mkGrid f sub with
  | none => pure (errJ .exit1)
  | some g =>
    let mut cur : List (Option Part) := ps.map fun p => match p with
      | [x, y, z, al, ac] => some { x := x, y := y, z := z, alive := al != 0, active := ac != 0 }
      | _ => none
    let mut out : Array Json := #[]
    for stepForc in forc do
      cur := (cur.zip stepForc).map fun (p, fr) =>
        match p, fr with
        | some p, [du, dv, wd, wa] => trackerStep cfg g vel du dv wd wa p
        | _, _ => none
      out := out.push (listJ (fun p => match p with | some q => partJ q | none => Json.str "IndexError") cur)
    pure (.arr out)

/-- C11: the diffusion coefficient arithmetic at `Float` -/
def opDiffDisp (j : Json) : R Json := do
  let cases ← getList (getList getFloat) (← fld j "cases")   -- [D, dt, dx, xi]
  pure (listJ (fun c => match c with
    | [D, dt, dx, xi] => Json.arr #[floatJ (diffVel D dt xi), floatJ (diffDisp D dt dx xi)]
    | _ => .null) cases)

/-- C01: `analytical.get_velocity1/2/4` on a polynomial `sample_func` -/
def opAnalytical (j : Json) : R Json := do
  let cu ← getList getRat (← fld j "u")
  let cv ← getList getRat (← fld j "v")
  let f : SampleFn := fun x y => (polyVal cu 0 x y, polyVal cv 0 x y)
  let dt ← getRat (← fld j "dt")
  let s ← getRat (← fld j "s")
  let pts ← getList (getList getRat) (← fld j "points")
  let pr (r : Rat × Rat) : Json := Json.arr #[ratJ r.1, ratJ r.2]
  pure (listJ (fun p => match p with
    | [x, y] => Json.arr #[pr (getVelocity1 f x y), pr (getVelocity2 f x y dt s), pr (getVelocity4 f x y dt)]
    | _ => .null) pts)

/-! ### C04: release -/

def getRRow (j : Json) : R RRow := do
  let cols ← getObjPairs (← fld j "cols")
  pure { time := ← getInt (← fld j "time"), mult := ← getNat (← fld j "mult"),
         cols := ← cols.mapM (fun (k, v) => do pure (k, ← getVal v)) }

def rrowJ (r : RRow) : Json :=
  Json.mkObj [("time", intJ r.time), ("cols", Json.mkObj (r.cols.map (fun (k, v) => (k, valJ v))))]

def opRelease (j : Json) : R Json := do
  let c : RelCfg := { start := ← getInt (← fld j "start"), stop := ← getInt (← fld j "stop"),
                      dt := ← getInt (← fld j "dt"), rev := ← getBool (← fld j "rev"),
                      continuous := ← getBool (← fld j "continuous"), freq := ← getInt (← fld j "freq"),
                      warm := ← getBool (← fld j "warm"), releaseTimeCol := ← getBool (← fld j "release_time_col") }
  let rows ← getList getRRow (← fld j "rows")
  let first ← getInt (← fld j "first_step")
  let n ← getNat (← fld j "nsteps")
  match Rel.init c rows with
  | .error e => pure (errJ e)
  | .ok r =>
    pure (Json.mkObj [("steps", listJ intJ r.steps), ("total", natJ r.total),
      ("released", listJ (fun (p : Int × List RRow) => Json.arr #[intJ p.1, listJ rrowJ p.2]) (r.run first n))])

/-! ### C20: start-up refusals -/

def stageName : Stage → String
  | .configure => "configure" | .time => "time" | .grid => "grid" | .forcing => "forcing"
  | .release => "release" | .output => "output"

def opValidate (j : Json) : R Json := do
  let b (k : String) : R Bool := do getBool (← fld j k)
  let rel ← (do
    let rj ← fld j "release"
    match ← (← fld rj "kind").getStr? with
    | "none" => pure RelFile.none
    | "missing" => pure RelFile.missing
    | "unreadable" => pure RelFile.unreadable
    | _ => do
      let rows ← getList getRRow (← fld rj "rows")
      pure (RelFile.table rows (← getBool (← fld rj "has_position"))))
  let s : Setup := {
    configExists := ← b "config_exists", versionOK := ← b "version_ok", hasTime := ← b "has_time",
    hasTracker := ← b "has_tracker", hasRelease := ← b "has_release", hasOutput := ← b "has_output",
    hasForcing := ← b "has_forcing", gridHasModuleAndFile := ← b "grid_has_module_and_file",
    start := ← getOptInt j "start", stop := ← getOptInt j "stop", dt := ← getInt (← fld j "dt"), rev := ← b "rev",
    gridFileExists := ← b "grid_file_exists", imax0 := ← getInt (← fld j "imax0"), jmax0 := ← getInt (← fld j "jmax0"),
    subgrid := ← getSub j, forcingFiles := ← getList (getList getInt) (← fld j "forcing_files"),
    release := rel, continuous := ← b "continuous", freq := ← getInt (← fld j "freq") }
  match validate s with
  | .ok () => pure (Json.mkObj [("ok", .bool true)])
  | .error (e, st) => pure (Json.mkObj [("error", .str e.toString), ("stage", .str (stageName st))])

/-! ### C18: configuration -/

partial def jsonToCfg (j : Json) : Cfg :=
  match j with
  | .null => .null
  | .bool b => .bool b
  | .num n => .num (mkRat n.mantissa (10 ^ n.exponent))
  | .str s => .str s
  | .arr a => .list (a.toList.map jsonToCfg)
  | .obj o => .dict (o.toList.map (fun (k, v) => (k, jsonToCfg v)))

partial def cfgToJson (c : Cfg) : Json :=
  match c with
  | .null => .null
  | .bool b => .bool b
  | .num q => ratJ q
  | .str s => .str s
  | .list l => .arr (l.map cfgToJson).toArray
  | .dict l => Json.mkObj (l.map (fun (k, v) => (k, cfgToJson v)))

def opConfigure (j : Json) : R Json := do
  let tree := jsonToCfg (← fld j "config")
  let globs ← getObjPairs (← fld j "glob")
  let table ← globs.mapM (fun (k, v) => do pure (k, ← getList (fun x => x.getStr?) v))
  let glob (pat : String) : List String := (table.lookup pat).getD []
  match configure glob tree with
  | .ok c => pure (Json.mkObj [("ok", cfgToJson c)])
  | .error e => pure (Json.mkObj [("error", .str e)])

def opParams (j : Json) : R Json := do
  let tree := jsonToCfg (← fld j "config")
  let globs ← getObjPairs (← fld j "glob")
  let table ← globs.mapM (fun (k, v) => do pure (k, ← getList (fun x => x.getStr?) v))
  let glob (pat : String) : List String := (table.lookup pat).getD []
  match Params.ofFile glob tree with
  | .error e => pure (errJ e)
  | .ok p => pure (Json.mkObj [
      ("dt", intJ p.dt), ("rev", .bool p.rev), ("has_ref", .bool p.hasRef), ("advection", .str p.advection),
      ("diffusion", .bool p.diffusion), ("vertdiff", .bool p.vertDiff), ("vertadv", .bool p.vertAdv),
      ("out_period", intJ p.outPeriod), ("out_period_step", intJ p.outPeriodStep), ("multifile", .bool p.multifile),
      ("numrec", intJ p.numrec), ("layout", .str p.layout), ("skip_initial", .bool p.skipInitial),
      ("continuous", .bool p.continuous), ("rel_freq", optJ intJ p.relFreq),
      ("extra_forcing", listJ (fun s => Json.str s) p.extraForcing), ("subgrid", optJ (listJ intJ) p.subgrid)])

/-- op "run_cfg": the whole way from the configuration file to the output files (`Ladim.runFile`).  The request
    carries the data of the run (as for "run"; whatever it says about the time step, the direction of time, the
    scheme, the output period and layout, the release mode, the subgrid is *ignored*) and the parsed configuration
    file with the listing of its wildcards; the model derives the parameters from the configuration itself. -/
def opRunCfg (j : Json) : R Json := do
  let s0 ← parseSim j
  let tree := jsonToCfg (← fld j "config")
  let globs ← getObjPairs (← fld j "glob")
  let table ← globs.mapM (fun (k, v) => do pure (k, ← getList (fun x => x.getStr?) v))
  let glob (pat : String) : List String := (table.lookup pat).getD []
  match Params.ofFile glob tree with
  | .ok p => if !p.deterministic then throw "random walk switched on: outside the deterministic model" else pure ()
  | .error _ => pure ()
  simOut (runFile glob tree s0.data quantize)

def handlers : List (String × (Json → R Json)) :=
  [("tk", opTk), ("period", opPeriod), ("state", opState), ("outrun", opOutRun), ("genname", opGenName),
   ("forcing", opForcing), ("z2s", opZ2s), ("sdepth", opSdepth), ("sstretch", opSstretch),
   ("sample", opSample), ("grid", opGrid), ("sample2d", opSample2D), ("bilininv", opBilinInv),
   ("tracker", opTracker), ("roms_sample", opRomsSample), ("diffdisp", opDiffDisp), ("analytical", opAnalytical), ("release", opRelease), ("run", opRun), ("validate", opValidate), ("configure", opConfigure), ("params", opParams), ("run_cfg", opRunCfg)]

def handle (line : String) : String :=
  match Json.parse line with
  | .error e => (Json.mkObj [("driver_error", .str e)]).compress
  | .ok j =>
    match j.getObjVal? "op" >>= Json.getStr? with
    | .error e => (Json.mkObj [("driver_error", .str e)]).compress
    | .ok op =>
      match handlers.lookup op with
      | none => (Json.mkObj [("driver_error", .str s!"unknown op {op}")]).compress
      | some h =>
        match h j with
        | .ok r => r.compress
        | .error e => (Json.mkObj [("driver_error", .str e)]).compress

end Drv

partial def loop (h : IO.FS.Stream) (out : IO.FS.Stream) : IO Unit := do
  let line ← h.getLine
  if line.isEmpty then return ()
  let t := line.trimAscii.toString
  if !t.isEmpty then
    out.putStrLn (Drv.handle t)
  loop h out

def main : IO Unit := do
  let out ← IO.getStdout
  loop (← IO.getStdin) out
  out.flush
