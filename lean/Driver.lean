import Ladim.Driver.Util
/-
Line-protocol driver: one JSON request per input line, one JSON response per output line.
It only *runs* the executable model definitions of `Ladim.Model.*`; it contains no logic of
its own beyond decoding and encoding.
-/
open Lean Ladim Drv

namespace Drv

/-! ### C13: clock -/

def tkSnap (tk : TK) (units : List String) : Json :=
  Json.mkObj [("step", intJ tk.step), ("time", intJ tk.time),
    ("nctime", listJ (fun u => optJ ratJ (tk.nctime u)) units)]

def opTk (j : Json) : R Json := do
  let start ← getOptInt j "start"
  let stop ← getOptInt j "stop"
  let dt ← getInt (← fld j "dt")
  let ref ← getOptInt j "ref"
  let rev ← getBool (← fld j "rev")
  let nupd ← getNat (← fld j "updates")
  let steps ← getList getInt (← fld j "steps")
  let times ← getList getInt (← fld j "times")
  let units ← getList (fun x => x.getStr?) (← fld j "units")
  match TK.init start stop dt ref rev with
  | .error e => pure (errJ e)
  | .ok tk =>
    let snaps := (List.range (nupd + 1)).map (fun k => tkSnap (tk.updates k) units)
    pure <| Json.mkObj [
      ("nsteps", intJ tk.nsteps), ("ref", intJ tk.ref),
      ("min", intJ tk.minTime), ("max", intJ tk.maxTime),
      ("clock", .arr snaps.toArray),
      ("step2time", listJ (fun n => intJ (tk.step2time n)) steps),
      ("time2step", listJ (fun t => intJ (tk.time2step t)) times),
      ("step2nctime", listJ (fun n => listJ (fun u => optJ ratJ (tk.step2nctime n u)) units) steps)]

def opPeriod (j : Json) : R Json := do
  let kind ← (← fld j "kind").getStr?
  let p ← match kind with
    | "secs" => do pure (PeriodIn.secs (← getInt (← fld j "n")))
    | "pair" => do pure (PeriodIn.pair (← getInt (← fld j "v")) (← (← fld j "unit").getStr?))
    | "badpair" => pure PeriodIn.badPair
    | "iso" => do pure (PeriodIn.iso (← (← fld j "s").getStr?))
    | _ => pure PeriodIn.other
  match normalizePeriod p with
  | .ok n => pure (Json.mkObj [("ok", intJ n)])
  | .error e => pure (errJ e)

/-! ### C05: state -/

def colsJ (l : List (String × Column)) : Json :=
  Json.mkObj (l.map (fun (n, c) => (n, listJ valJ c)))

def stateSnap (s : PState) : Json :=
  Json.mkObj [("pid", listJ natJ s.pid), ("npid", natJ s.npid),
    ("ivars", colsJ s.ivars), ("pvars", colsJ s.pvars)]

def getArg (j : Json) : R Arg :=
  match j with
  | .arr a => do pure (.array (← a.toList.mapM getVal))
  | _ => do pure (.scalar (← getVal j))

def getObjPairs (j : Json) : R (List (String × Json)) :=
  match j with
  | .obj o => pure (o.toList)
  | _ => throw "expected object"

def stateOp (s : PState) (j : Json) : R (Except Refusal PState) := do
  let op ← (← fld j "op").getStr?
  match op with
  | "append" =>
    let ps ← getObjPairs (← fld j "args")
    let args ← ps.mapM (fun (k, v) => do pure (k, ← getArg v))
    pure (s.append args)
  | "kill" =>
    let m ← getList getBool (← fld j "mask")
    pure (.ok (s.kill m))
  | "compactify" => pure (.ok s.compactify)
  | "set" =>
    let var ← (← fld j "var").getStr?
    let vals ← getList getVal (← fld j "vals")
    pure (s.setitem var vals)
  | _ => throw s!"unknown state op {op}"

def opState (j : Json) : R Json := do
  let extraI ← getList (fun x => x.getStr?) (← fld j "extraI")
  let extraP ← getList (fun x => x.getStr?) (← fld j "extraP")
  let dps ← getObjPairs (← fld j "defaults")
  let defaults ← dps.mapM (fun (k, v) => do pure (k, ← getVal v))
  let ops ← (← fld j "ops").getArr?
  let mut s := PState.init extraI extraP defaults
  let mut out : Array Json := #[]
  for o in ops do
    match ← stateOp s o with
    | .ok s' => s := s'; out := out.push (stateSnap s)
    | .error e => out := out.push (errJ e)
  pure (.arr out)

def handlers : List (String × (Json → R Json)) :=
  [("tk", opTk), ("period", opPeriod), ("state", opState)]

def handle (line : String) : String :=
  match Json.parse line with
  | .error e => (Json.mkObj [("driver_error", .str e)]).compress
  | .ok j =>
    match j.getObjVal? "op" >>= Json.getStr? with
    | .error e => (Json.mkObj [("driver_error", .str e)]).compress
    | .ok op =>
      match handlers.lookup op with
      | none => (Json.mkObj [("driver_error", .str s!"unknown op {op}")]).compress
      | some h =>
        match h j with
        | .ok r => r.compress
        | .error e => (Json.mkObj [("driver_error", .str e)]).compress

end Drv

partial def loop (h : IO.FS.Stream) (out : IO.FS.Stream) : IO Unit := do
  let line ← h.getLine
  if line.isEmpty then return ()
  let t := line.trimAscii.toString
  if !t.isEmpty then
    out.putStrLn (Drv.handle t)
  loop h out

def main : IO Unit := do
  let out ← IO.getStdout
  loop (← IO.getStdin) out
  out.flush
