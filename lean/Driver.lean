import Ladim.Driver.Util
import Ladim.Model.Output
/-
Line-protocol driver: one JSON request per input line, one JSON response per output line.
It only *runs* the executable model definitions of `Ladim.Model.*`; it contains no logic of
its own beyond decoding and encoding.
-/
open Lean Ladim Drv

namespace Drv

/-! ### C13: clock -/

def tkSnap (tk : TK) (units : List String) : Json :=
  Json.mkObj [("step", intJ tk.step), ("time", intJ tk.time),
    ("nctime", listJ (fun u => optJ ratJ (tk.nctime u)) units)]

def opTk (j : Json) : R Json := do
  let start ← getOptInt j "start"
  let stop ← getOptInt j "stop"
  let dt ← getInt (← fld j "dt")
  let ref ← getOptInt j "ref"
  let rev ← getBool (← fld j "rev")
  let nupd ← getNat (← fld j "updates")
  let steps ← getList getInt (← fld j "steps")
  let times ← getList getInt (← fld j "times")
  let units ← getList (fun x => x.getStr?) (← fld j "units")
  match TK.init start stop dt ref rev with
  | .error e => pure (errJ e)
  | .ok tk =>
    let snaps := (List.range (nupd + 1)).map (fun k => tkSnap (tk.updates k) units)
    pure <| Json.mkObj [
      ("nsteps", intJ tk.nsteps), ("ref", intJ tk.ref),
      ("min", intJ tk.minTime), ("max", intJ tk.maxTime),
      ("clock", .arr snaps.toArray),
      ("step2time", listJ (fun n => intJ (tk.step2time n)) steps),
      ("time2step", listJ (fun t => intJ (tk.time2step t)) times),
      ("step2nctime", listJ (fun n => listJ (fun u => optJ ratJ (tk.step2nctime n u)) units) steps)]

def opPeriod (j : Json) : R Json := do
  let kind ← (← fld j "kind").getStr?
  let p ← match kind with
    | "secs" => do pure (PeriodIn.secs (← getInt (← fld j "n")))
    | "pair" => do pure (PeriodIn.pair (← getInt (← fld j "v")) (← (← fld j "unit").getStr?))
    | "badpair" => pure PeriodIn.badPair
    | "iso" => do pure (PeriodIn.iso (← (← fld j "s").getStr?))
    | _ => pure PeriodIn.other
  match normalizePeriod p with
  | .ok n => pure (Json.mkObj [("ok", intJ n)])
  | .error e => pure (errJ e)

/-! ### C05: state -/

def colsJ (l : List (String × Column)) : Json :=
  Json.mkObj (l.map (fun (n, c) => (n, listJ valJ c)))

def stateSnap (s : PState) : Json :=
  Json.mkObj [("pid", listJ natJ s.pid), ("npid", natJ s.npid),
    ("ivars", colsJ s.ivars), ("pvars", colsJ s.pvars)]

def getArg (j : Json) : R Arg :=
  match j with
  | .arr a => do pure (.array (← a.toList.mapM getVal))
  | _ => do pure (.scalar (← getVal j))

def getObjPairs (j : Json) : R (List (String × Json)) :=
  match j with
  | .obj o => pure (o.toList)
  | _ => throw "expected object"

def stateOp (s : PState) (j : Json) : R (Except Refusal PState) := do
  let op ← (← fld j "op").getStr?
  match op with
  | "append" =>
    let ps ← getObjPairs (← fld j "args")
    let args ← ps.mapM (fun (k, v) => do pure (k, ← getArg v))
    pure (s.append args)
  | "kill" =>
    let m ← getList getBool (← fld j "mask")
    pure (.ok (s.kill m))
  | "compactify" => pure (.ok s.compactify)
  | "set" =>
    let var ← (← fld j "var").getStr?
    let vals ← getList getVal (← fld j "vals")
    pure (s.setitem var vals)
  | _ => throw s!"unknown state op {op}"

def opState (j : Json) : R Json := do
  let extraI ← getList (fun x => x.getStr?) (← fld j "extraI")
  let extraP ← getList (fun x => x.getStr?) (← fld j "extraP")
  let dps ← getObjPairs (← fld j "defaults")
  let defaults ← dps.mapM (fun (k, v) => do pure (k, ← getVal v))
  let ops ← (← fld j "ops").getArr?
  let mut s := PState.init extraI extraP defaults
  let mut out : Array Json := #[]
  for o in ops do
    match ← stateOp s o with
    | .ok s' => s := s'; out := out.push (stateSnap s)
    | .error e => out := out.push (errJ e)
  pure (.arr out)

/-! ### C06/C07: output -/

def getCols (j : Json) : R (List (String × Column)) := do
  let ps ← getObjPairs j
  ps.mapM (fun (k, v) => do pure (k, ← getList getVal v))

def getSnapshot (j : Json) : R Snapshot := do
  pure { time := ← getRat (← fld j "time"), pid := ← getList getNat (← fld j "pid"),
         alive := ← getList getBool (← fld j "alive"), cols := ← getCols (← fld j "cols"),
         npid := ← getNat (← fld j "npid"), pvars := ← getCols (← fld j "pvars") }

def vfileJ (f : VFile) : Json :=
  Json.mkObj [("name", .str f.name), ("time", listJ ratJ f.time), ("count", listJ natJ f.count),
    ("pid", listJ natJ f.pid), ("inst", colsJ f.inst),
    ("dense", listJ (fun rec => Json.mkObj (rec.map (fun (n, c) => (n, listJ (optJ valJ) c)))) f.dense),
    ("pvarN", optJ natJ f.pvarN), ("pvars", colsJ f.pvars), ("closed", .bool f.closed)]

/-- the output side of `main`: for step in range(first, nsteps): if due then write; finally close -/
def opOutRun (j : Json) : R Json := do
  let layout := if (← (← fld j "layout").getStr?) == "dense" then Layout.dense else Layout.sparse
  let nsteps ← getInt (← fld j "nsteps")
  let period ← getInt (← fld j "period")
  let numrec ← getInt (← fld j "numrec")
  let stem ← (← fld j "stem").getStr?
  let suffix ← (← fld j "suffix").getStr?
  let skip ← getBool (← fld j "skip_initial")
  let first ← getInt (← fld j "first_step")
  let last ← getInt (← fld j "last_step")
  let snaps ← getList getSnapshot (← fld j "snapshots")   -- one per due step, in order
  -- snapshots are supplied per due step, in order; look them up by step number
  let dueList := (Out.stepRange first (last - first + 1).toNat).filter (fun st => Int.fmod st period == 0)
  if dueList.length != snaps.length then throw s!"expected {dueList.length} snapshots, got {snaps.length}"
  let table := dueList.zip snaps
  let dflt : Snapshot := { time := 0, pid := [], alive := [], cols := [], npid := 0, pvars := [] }
  let snap (st : Int) : Snapshot := (table.lookup st).getD dflt
  let o0 := Out.init layout period (Out.predictRecords nsteps period skip) numrec stem suffix
  match Out.runSteps o0 snap (Out.stepRange first (last - first + 1).toNat) with
  | .error (st, e) => pure (Json.mkObj [("error", .str e.toString), ("at_step", intJ st)])
  | .ok o => pure (Json.mkObj [("files", listJ vfileJ o.close.files), ("num_records", intJ o.numRecords)])

def opGenName (j : Json) : R Json := do
  let stem ← (← fld j "stem").getStr?
  let suffix ← (← fld j "suffix").getStr?
  let n ← getNat (← fld j "n")
  pure (listJ (fun k => Json.str (genName stem suffix k)) (List.range n))

def handlers : List (String × (Json → R Json)) :=
  [("tk", opTk), ("period", opPeriod), ("state", opState), ("outrun", opOutRun), ("genname", opGenName)]

def handle (line : String) : String :=
  match Json.parse line with
  | .error e => (Json.mkObj [("driver_error", .str e)]).compress
  | .ok j =>
    match j.getObjVal? "op" >>= Json.getStr? with
    | .error e => (Json.mkObj [("driver_error", .str e)]).compress
    | .ok op =>
      match handlers.lookup op with
      | none => (Json.mkObj [("driver_error", .str s!"unknown op {op}")]).compress
      | some h =>
        match h j with
        | .ok r => r.compress
        | .error e => (Json.mkObj [("driver_error", .str e)]).compress

end Drv

partial def loop (h : IO.FS.Stream) (out : IO.FS.Stream) : IO Unit := do
  let line ← h.getLine
  if line.isEmpty then return ()
  let t := line.trimAscii.toString
  if !t.isEmpty then
    out.putStrLn (Drv.handle t)
  loop h out

def main : IO Unit := do
  let out ← IO.getStdout
  loop (← IO.getStdin) out
  out.flush
